"""Deep structural fingerprint of a MachineNode: every field that changes behaviour, guards and
params in full, targets resolved to state ids.  Used by C17/C18/C19 to compare two machines that
must denote the same statechart."""
from __future__ import annotations

from typing import Any


def _params(p: Any) -> Any:
    if callable(p):
        return "<callable>"
    if isinstance(p, dict):
        return {str(k): _params(v) for k, v in sorted(p.items(), key=lambda kv: str(kv[0]))}
    if isinstance(p, (list, tuple)):
        return [_params(x) for x in p]
    return p


def guard_fp(g) -> Any:
    if g is None:
        return None
    if g.is_composite:
        return {"op": g.type, "children": [guard_fp(c) for c in g.children]}
    return {"type": g.type, "params": _params(g.params)}


def action_fp(a) -> Any:
    return {"type": a.type, "params": _params(a.params)}


def _resolve(t, node) -> Any:
    from xstate_statemachine.exceptions import StateNotFoundError
    from xstate_statemachine.resolver import resolve_target_state

    ts = getattr(t, "target_str", None)
    if not ts:
        return None
    machine = node.machine
    attempts = [(ts, node)]
    if node.parent is not None:
        attempts.append((ts, node.parent))
    attempts += [(ts, machine), (f"{machine.id}.{ts}", machine)]
    for text, ref in attempts:
        try:
            return resolve_target_state(text, ref).id
        except StateNotFoundError:
            continue
        except Exception as e:  # noqa
            return f"<error:{type(e).__name__}>"
    # the interpreters' last resort: a state anywhere in the tree whose local name is the target
    hits = []

    def walk(n):
        if n.id.split(".")[-1] == ts:
            hits.append(n.id)
        for c in n.states.values():
            walk(c)

    walk(machine)
    if hits:
        return hits[0]
    return f"<unresolved:{ts}>"


def trans_fp(t) -> Any:
    return {
        "target": _resolve(t, t.source),
        "guard": guard_fp(t.guard_def),
        "actions": [action_fp(a) for a in t.actions],
        "reenter": bool(t.reenter),
        "null": bool(getattr(t, "forbidden", False)),
    }


def state_fp(node) -> Any:
    d = {
        "type": node.type,
        "initial": node.initial if node.type == "compound" else None,
        "history": node.history,
        "history_target": _resolve(node, node) if node.type == "history" and node.target_str else None,
        "entry": [action_fp(a) for a in node.entry],
        "exit": [action_fp(a) for a in node.exit],
        "on": {k: [trans_fp(t) for t in v] for k, v in sorted(node.on.items()) if v},
        "after": {str(k): [trans_fp(t) for t in v] for k, v in sorted(node.after.items(), key=lambda kv: str(kv[0]))},
        "invoke": [{"id": i.id, "src": i.src, "input": _params(i.input), "onDone": [trans_fp(t) for t in i.on_done],
                    "onError": [trans_fp(t) for t in i.on_error]} for i in node.invoke],
        "onDone": trans_fp(node.on_done) if node.on_done else None,
        "tags": sorted(node.tags),
        "meta": _params(node.meta),
        "output": _params(node.output),
        "children": list(node.states.keys()),
    }
    return d


def machine_fp(machine, with_ids: bool = True) -> Any:
    states = {}

    def rec(n):
        states[n.id] = state_fp(n)
        for c in n.states.values():
            rec(c)

    rec(machine)
    ctx = machine.initial_context
    return {
        "id": machine.id,
        "states": states,
        "context": "<callable>" if callable(ctx) else _params(ctx),
        "maxIterations": machine.max_iterations,
        "output": _params(machine.machine_output),
    }


def diff(a: Any, b: Any, path: str = "") -> Any:
    """First difference between two fingerprints as (path, a, b) or None."""
    if type(a) != type(b):
        return (path, a, b)
    if isinstance(a, dict):
        for k in sorted(set(a) | set(b), key=str):
            if k not in a or k not in b:
                return (f"{path}/{k}", a.get(k, "<absent>"), b.get(k, "<absent>"))
            d = diff(a[k], b[k], f"{path}/{k}")
            if d:
                return d
        return None
    if isinstance(a, list):
        if len(a) != len(b):
            return (path + "/len", len(a), len(b))
        for i, (x, y) in enumerate(zip(a, b)):
            d = diff(x, y, f"{path}[{i}]")
            if d:
                return d
        return None
    return None if a == b else (path, a, b)
