"""Deterministic baton scheduler for code written against threading.Thread/Event + time.sleep.

Real OS threads are used (so arbitrary blocking Python code works), but exactly one of them holds
the baton at any time.  The baton moves only at `Event.wait`, `time.sleep`, `Thread.start`
(optional), thread exit and explicit `yield_()` — and, when a Tracer is installed, at chosen line
boundaries of named functions.  Virtual time advances only when nobody is runnable.

`install(sched)` replaces the names `threading` and `time` in
`xstate_statemachine.sync_interpreter`'s module namespace; `uninstall()` restores them.
"""
from __future__ import annotations

import threading as _rt
import time as _real_time
import types
from typing import Callable, List, Optional


class Deadlock(Exception):
    pass


class _Killed(BaseException):
    """Unwinds a parked virtual thread at shutdown."""


class VT:
    _seq = 0

    def __init__(self, sched, target, name, is_main=False, args=(), kwargs=None):
        self.sched = sched
        self.target = target
        self.name = name
        self.is_main = is_main
        self.args = args
        self.kwargs = kwargs or {}
        self.state = "new"  # new | ready | run | wait | done
        self.wait_ev = None
        self.wake = None
        self.sem = _rt.Semaphore(0)
        VT._seq += 1
        self.seq = VT._seq
        self.exc = None
        self.real = None
        self.killed = False

    def _boot(self):
        self.sem.acquire()
        if self.killed:
            self.state = "done"
            return
        try:
            self.target(*self.args, **self.kwargs)
        except _Killed:
            self.state = "done"
            return
        except BaseException as e:  # noqa
            self.exc = e
        self.state = "done"
        try:
            self.sched._switch(self)
        except (_Killed, Deadlock):
            pass


class Sched:
    def __init__(self, chooser: Optional[Callable[[List[str]], int]] = None, yield_on_start: bool = True,
                 max_switches: int = 200000):
        self.now = 0.0
        self.vts: List[VT] = []
        self.chooser = chooser or (lambda names: 0)
        self.yield_on_start = yield_on_start
        self.main = VT(self, None, "main", is_main=True)
        self.main.state = "run"
        self.cur = self.main
        self.vts.append(self.main)
        self.trace: List[tuple] = []
        self.switches = 0
        self.max_switches = max_switches
        self.dead = False
        self.overrun = False
        self.main_yielding = False
        self.thread_names: List[str] = []

    # ---- core
    def _runnable(self) -> List[VT]:
        out = []
        for t in self.vts:
            if t.state == "ready":
                out.append(t)
            elif t.state == "wait":
                if t.wait_ev is not None and t.wait_ev._flag:
                    out.append(t)
                elif t.wake is not None and t.wake <= self.now + 1e-12:
                    out.append(t)
        return out

    def _switch(self, me: VT):
        """`me` has set its own state (wait/ready/done); pick the next thread, hand over."""
        if self.dead:
            raise _Killed()
        self.switches += 1
        if self.switches > self.max_switches or self.overrun:
            from .recorder import StepBudgetExceeded

            self.overrun = True
            if me.is_main:
                me.state = "run"
                raise StepBudgetExceeded("scheduler switch budget exceeded")
            # hand the baton to main for good; this thread parks until shutdown
            self.main.state = "run"
            self.cur = self.main
            self.main.sem.release()
            if me.state != "done":
                me.sem.acquire()
                raise _Killed()
            return
        while True:
            r = self._runnable()
            if r:
                break
            wakes = [t.wake for t in self.vts if t.state == "wait" and t.wake is not None]
            if not wakes:
                raise Deadlock("no runnable thread; states=%s" % [(t.name, t.state) for t in self.vts])
            self.now = max(self.now, min(wakes))
        r.sort(key=lambda t: t.seq)
        if self.main_yielding and len(r) > 1:
            r = [t for t in r if not t.is_main] or r
        if len(r) > 1:
            nxt = r[self.chooser([t.name for t in r]) % len(r)]
        else:
            nxt = r[0]
        self.trace.append((round(self.now, 6), nxt.name))
        if nxt is me:
            me.state = "run"
            return
        nxt.state = "run"
        self.cur = nxt
        nxt.sem.release()
        if me.state != "done":
            me.sem.acquire()
            if self.dead or me.killed:
                raise _Killed()
            if self.overrun and me.is_main:
                from .recorder import StepBudgetExceeded

                me.state = "run"
                raise StepBudgetExceeded("scheduler switch budget exceeded")

    def block(self, timeout=None, ev=None) -> bool:
        me = self.cur
        me.state = "wait"
        me.wait_ev = ev
        me.wake = None if timeout is None else self.now + max(0.0, timeout)
        try:
            self._switch(me)
        finally:
            fired = ev._flag if ev is not None else False
            me.wait_ev = None
            me.wake = None
        return fired

    def yield_(self):
        me = self.cur
        me.state = "ready"
        self._switch(me)

    # ---- API for the driver (called from the main virtual thread)
    def sleep(self, dt: float):
        self.block(timeout=dt)

    def advance(self, dt: float):
        """Main thread sleeps `dt` virtual seconds, letting every other thread run."""
        self.block(timeout=dt)

    def settle(self):
        """Lets every runnable non-main thread run until all are blocked on a future time."""
        self.main_yielding = True
        try:
            for _ in range(100000):
                others = [t for t in self._runnable() if not t.is_main]
                if not others:
                    return
                self.yield_()
        finally:
            self.main_yielding = False

    def live(self) -> List[str]:
        return [t.name for t in self.vts if t.state not in ("done", "new") and not t.is_main]

    def shutdown(self):
        """Releases every parked thread with _Killed and joins the real threads."""
        self.dead = True
        for t in self.vts:
            if t.is_main:
                continue
            if t.state != "done":
                t.killed = True
                t.sem.release()
        for t in self.vts:
            if t.real is not None:
                try:
                    t.real.join(timeout=2.0)
                except RuntimeError:
                    pass  # created but never started (the per-case alarm struck inside Thread.start())


def make_shims(sched: Sched):
    class Thread:
        def __init__(self, group=None, target=None, name=None, args=(), kwargs=None, *, daemon=None):
            self._vt = VT(sched, target, name or "T", args=args, kwargs=kwargs)
            self.name = self._vt.name
            self.daemon = daemon

        def start(self):
            vt = self._vt
            vt.state = "ready"
            sched.vts.append(vt)
            sched.thread_names.append(vt.name)
            vt.real = _rt.Thread(target=vt._boot, daemon=True)
            vt.real.start()
            if sched.yield_on_start:
                sched.yield_()

        def is_alive(self):
            return self._vt.state not in ("new", "done")

        def join(self, timeout=None):
            waited = 0.0
            while self._vt.state != "done":
                sched.block(timeout=0.001)
                waited += 0.001
                if timeout is not None and waited >= timeout:
                    return

    class Event:
        def __init__(self):
            self._flag = False

        def set(self):
            self._flag = True

        def clear(self):
            self._flag = False

        def is_set(self):
            return self._flag

        def wait(self, timeout=None):
            if self._flag:
                return True
            return sched.block(timeout=timeout, ev=self)

    class Lock:
        """Baton-aware mutex: a thread preempted while holding it does not wedge the real
        threads - waiters park in the scheduler until it is released."""

        def __init__(self):
            self._free = Event()
            self._free._flag = True

        def acquire(self, blocking=True, timeout=-1):
            while not self._free._flag:
                if not blocking:
                    return False
                sched.block(ev=self._free, timeout=None if timeout is None or timeout < 0 else timeout)
                if timeout is not None and timeout >= 0 and not self._free._flag:
                    return False
            self._free._flag = False
            return True

        def release(self):
            self._free._flag = True

        def locked(self):
            return not self._free._flag

        def __enter__(self):
            self.acquire()
            return self

        def __exit__(self, *a):
            self.release()

    thr = types.SimpleNamespace(
        Thread=Thread,
        Event=Event,
        current_thread=_rt.current_thread,
        enumerate=_rt.enumerate,
        Lock=Lock,
        RLock=_rt.RLock,
        Timer=None,
    )
    tim = types.SimpleNamespace(
        sleep=lambda dt: sched.sleep(dt),
        time=lambda: sched.now,
        monotonic=lambda: sched.now,
        perf_counter=lambda: sched.now,
    )
    return thr, tim


_saved = {}


def install(sched: Sched):
    import xstate_statemachine.sync_interpreter as si

    if "threading" not in _saved:
        _saved["threading"] = si.threading
        _saved["time"] = si.time
    thr, tim = make_shims(sched)
    si.threading = thr
    si.time = tim
    return thr, tim


def uninstall():
    import xstate_statemachine.sync_interpreter as si

    if "threading" in _saved:
        si.threading = _saved.pop("threading")
        si.time = _saved.pop("time")


def install_line_preemption(sched: Sched, plan, codes):
    """Line-level preemption inside selected functions.

    A trace function counts the 'line' events of frames whose code object is in `codes` (across
    all threads, in baton order - so the count is a deterministic function of the schedule); when
    the count is in `plan` the running thread hands the baton over (`sched.yield_()`), i.e. it is
    preempted *before* that line executes. Returns (uninstall, hits, counter)."""
    import sys

    plan = set(plan)
    counter = [0]
    hits = []

    def local(frame, event, arg):
        if event == "line":
            counter[0] += 1
            if counter[0] in plan and not sched.dead and not sched.overrun:
                hits.append((counter[0], frame.f_code.co_name, frame.f_lineno, sched.cur.name))
                sched.yield_()
        return local

    def tracer(frame, event, arg):
        if event == "call" and frame.f_code in codes:
            return local
        return None

    prev = sys.gettrace()
    _rt.settrace(tracer)
    sys.settrace(tracer)

    def un():
        _rt.settrace(None)
        sys.settrace(prev)

    return un, hits, counter
