"""Sensitivity (mutation) protocol.

python -m xsmverif.sensitivity [--only ID,...] [--props C01,...] [--examples N]

For each mutant in /verif/mutants/mutants.json the source tree of /repo is copied to a scratch
directory outside /repo and /verif, the textual substitution is applied, the *quick* tier of every
property listed for the mutant is run with PYTHONPATH pointing at the copy (evidence and replays go
to a scratch directory too), and the copy is deleted.  Result: killed (exit 1 with a VIOLATION
line) / survived (exit 0) / error (exit 2)."""
import argparse
import json
import os
import shutil
import subprocess
import sys
import tempfile
import time

ROOT = os.path.dirname(os.path.dirname(os.path.abspath(__file__)))
REPO = os.environ.get("XSM_REPO", "/repo")


def apply(mut, dst):
    path = os.path.join(dst, mut["file"])
    s = open(path).read()
    if mut["old"] not in s:
        raise SystemExit(f"mutant {mut['id']}: pattern not found in {mut['file']}")
    n = mut.get("count", 1)
    s = s.replace(mut["old"], mut["new"], n)
    open(path, "w").write(s)


def main():
    ap = argparse.ArgumentParser()
    ap.add_argument("--only")
    ap.add_argument("--props")
    ap.add_argument("--tier", default="quick")
    ap.add_argument("--out", default=os.path.join(ROOT, "sensitivity", "results.json"))
    a = ap.parse_args()
    muts = json.load(open(os.path.join(ROOT, "mutants", "mutants.json")))
    only = set(a.only.split(",")) if a.only else None
    props_filter = set(a.props.split(",")) if a.props else None
    results = []
    if os.path.exists(a.out):
        try:
            results = json.load(open(a.out))
        except Exception:
            results = []
    for mut in muts:
        if only and mut["id"] not in only:
            continue
        for prop in mut["props"]:
            if props_filter and prop not in props_filter:
                continue
            tmp = tempfile.mkdtemp(prefix="xsm-mut-", dir=os.environ.get("TMPDIR", "/var/tmp"))
            try:
                shutil.copytree(os.path.join(REPO, "src"), os.path.join(tmp, "src"))
                apply(mut, tmp)
                env = dict(os.environ)
                env["PYTHONPATH"] = f"{ROOT}:{tmp}/src"
                env["XSM_VERDICT_ONLY"] = "1"
                env["PYTHONHASHSEED"] = "0"
                env["XSM_OUT_DIR"] = os.path.join(tmp, "out")
                t0 = time.time()
                p = subprocess.run([sys.executable, "-m", "xsmverif.run", prop, "--tier", a.tier],
                                   cwd=ROOT, env=env, capture_output=True, text=True, timeout=3600)
                vio = [l for l in p.stdout.splitlines() if l.startswith("VIOLATION") or l.startswith("  tag=")]
                verdict = {0: "SURVIVED", 1: "killed", 2: "harness-error"}.get(p.returncode, f"exit{p.returncode}")
                r = {"mutant": mut["id"], "property": prop, "verdict": verdict, "wall_s": round(time.time() - t0, 1),
                     "tags": [l.strip()[:200] for l in vio if l.startswith("  tag=")][:4], "what": mut.get("what", "")}
                print("MUTANT " + json.dumps({k: r[k] for k in ("mutant", "property", "verdict", "wall_s")} | {"tags": [t[:140] for t in r["tags"][:1]]}), flush=True)
                if verdict == "harness-error":
                    print(p.stderr[-1500:])
                results = [x for x in results if not (x["mutant"] == r["mutant"] and x["property"] == r["property"])]
                results.append(r)
                os.makedirs(os.path.dirname(a.out), exist_ok=True)
                json.dump(results, open(a.out, "w"), indent=1)
            finally:
                shutil.rmtree(tmp, ignore_errors=True)
    os.makedirs(os.path.dirname(a.out), exist_ok=True)
    json.dump(results, open(a.out, "w"), indent=1)


if __name__ == "__main__":
    main()
