"""Structural delta-debugging of a {"spec": MachineSpec, "history": [...]} case.

Hypothesis shrinks the *draw sequence*; because the generator draws the tree first and the
transitions afterwards, deleting a state shifts every later draw and Hypothesis makes slow
progress on big machines.  This pass works on the JSON spec directly: it deletes history steps,
transitions, actions, guards, whole states, invokes/after blocks, and keeps a deletion whenever
`fails(case)` still holds.  It only ever produces specs the generator could have produced
(targets always resolve; compound states keep an initial child)."""
from __future__ import annotations

import copy
import time
from typing import Any, Callable, List, Optional

from .render import finalize, state_transitions


def _states(s, path=()):
    yield path, s
    for c in s.get("children", []):
        yield from _states(c, path + (c["key"],))


def _get(spec, path):
    s = spec["root"]
    for k in path:
        s = next(c for c in s["children"] if c["key"] == k)
    return s


def _renumber(spec):
    # strip markers so finalize() renumbers them consistently
    for _, s in _states(spec["root"]):
        for fam, key, i, t in state_transitions(s):
            t.pop("mk", None)
            acts = t.get("actions") or []
            if acts and acts[0].get("k") == "mark" and str(acts[0].get("name", "")).startswith("t") and str(acts[0]["name"])[1:].isdigit():
                acts.pop(0)
    finalize(spec)


def _targets_inside(t, path) -> bool:
    tg = t.get("target")
    return tg is not None and tuple(tg[: len(path)]) == tuple(path)


def _drop_state(spec, path) -> bool:
    """Removes the state at `path` and every transition / history default targeting into it."""
    if not path:
        return False
    parent = _get(spec, path[:-1])
    kids = parent["children"]
    victim = next(c for c in kids if c["key"] == path[-1])
    real = [c for c in kids if c["kind"] != "history"]
    if victim["kind"] != "history" and len(real) <= 1:
        # parent would have no real child left: make it atomic (drop history kids as well)
        for c in list(kids):
            _purge_targets(spec, path[:-1] + (c["key"],))
        parent["children"] = []
        parent.pop("initial", None)
        parent["kind"] = "atomic"
        parent.pop("onDone", None)
        return True
    _purge_targets(spec, path)
    kids.remove(victim)
    if parent["kind"] == "compound" and parent.get("initial") == victim["key"]:
        parent["initial"] = next(c for c in kids if c["kind"] != "history")["key"]
    return True


def _purge_targets(spec, path):
    for _, s in _states(spec["root"]):
        if s["kind"] == "history" and s.get("htarget") is not None and tuple(s["htarget"][: len(path)]) == tuple(path):
            s["htarget"] = None
        on = s.get("on")
        if on:
            for ent in on:
                ent[1] = [t for t in ent[1] if not _targets_inside(t, path)]
            s["on"] = [e for e in on if e[1]]
        if s.get("always"):
            s["always"] = [t for t in s["always"] if not _targets_inside(t, path)]
        if s.get("onDone") and _targets_inside(s["onDone"], path):
            s["onDone"] = None
        if s.get("after"):
            for ent in s["after"]:
                ent[1] = [t for t in ent[1] if not _targets_inside(t, path)]
            s["after"] = [e for e in s["after"] if e[1]]
        for inv in s.get("invoke", []) or []:
            for k in ("onDone", "onError"):
                if inv.get(k):
                    inv[k] = [t for t in inv[k] if not _targets_inside(t, path)]


def _candidates(case) -> List[Callable[[dict], bool]]:
    """Returns a list of mutators; each mutates a deep copy in place and returns True if it applied."""
    muts: List[Callable[[dict], bool]] = []
    spec = case["spec"]
    hist = case.get("history") or []
    # history: drop each step (last first)
    for i in reversed(range(len(hist))):
        muts.append(lambda c, i=i: (c["history"].pop(i), True)[1] if i < len(c["history"]) else False)
    # states, deepest/last first
    paths = [p for p, _ in _states(spec["root"]) if p]
    for p in sorted(paths, key=lambda p: (-len(p), p), reverse=False):
        muts.append(lambda c, p=p: _safe(lambda: _drop_state(c["spec"], p)))
    for p, s in _states(spec["root"]):
        for ei in reversed(range(len(s.get("on", []) or []))):
            muts.append(lambda c, p=p, ei=ei: _safe(lambda: _del_on(c["spec"], p, ei, None)))
            n = len(s["on"][ei][1])
            if n > 1:
                for ti in reversed(range(n)):
                    muts.append(lambda c, p=p, ei=ei, ti=ti: _safe(lambda: _del_on(c["spec"], p, ei, ti)))
        for key in ("always", "after", "invoke"):
            for i in reversed(range(len(s.get(key, []) or []))):
                muts.append(lambda c, p=p, key=key, i=i: _safe(lambda: (_get(c["spec"], p)[key].pop(i), True)[1]))
        if s.get("onDone"):
            muts.append(lambda c, p=p: _safe(lambda: (_get(c["spec"], p).__setitem__("onDone", None), True)[1]))
        if s.get("htarget") is not None:
            muts.append(lambda c, p=p: _safe(lambda: (_get(c["spec"], p).__setitem__("htarget", None), True)[1]))
        if s.get("output") is not None:
            muts.append(lambda c, p=p: _safe(lambda: (_get(c["spec"], p).__setitem__("output", None), True)[1]))
        for fam in ("entry", "exit"):
            if len(s.get(fam, []) or []) > 1:
                muts.append(lambda c, p=p, fam=fam: _safe(lambda: _trim_actions(_get(c["spec"], p)[fam])))
    # per-transition simplifications
    muts.append(lambda c: _safe(lambda: _each_transition(c["spec"], "guard")))
    muts.append(lambda c: _safe(lambda: _each_transition(c["spec"], "actions")))
    muts.append(lambda c: _safe(lambda: _each_transition(c["spec"], "reenter")))
    return muts


def _safe(fn) -> bool:
    try:
        return bool(fn())
    except (StopIteration, KeyError, IndexError, ValueError):
        return False


def _del_on(spec, p, ei, ti):
    s = _get(spec, p)
    if ti is None:
        s["on"].pop(ei)
    else:
        s["on"][ei][1].pop(ti)
        if not s["on"][ei][1]:
            s["on"].pop(ei)
    return True


def _trim_actions(lst):
    if len(lst) <= 1:
        return False
    del lst[1:]
    return True


def _each_transition(spec, what):
    changed = False
    for _, s in _states(spec["root"]):
        for fam, key, i, t in state_transitions(s):
            if what == "guard" and t.get("guard") is not None and fam != "always":
                t["guard"] = None
                changed = True
            elif what == "actions" and len(t.get("actions") or []) > 1:
                del t["actions"][1:]
                changed = True
            elif what == "reenter" and t.get("reenter"):
                t["reenter"] = False
                changed = True
    return changed


def _iter_transitions(spec):
    for p, s in _states(spec["root"]):
        for fam, key, i, t in state_transitions(s):
            if fam == "always":
                continue  # an unguarded `always` is an endless loop, never a simplification
            yield p, t


def shrink_case(case: dict, fails: Callable[[dict], bool], budget_s: float = 30.0) -> dict:
    """Greedy structural minimisation.  `fails(case)` must be True for the input."""
    if not isinstance(case, dict) or "spec" not in case or "root" not in case.get("spec", {}):
        return case
    t_end = time.time() + budget_s
    best = copy.deepcopy(case)
    progress = True
    while progress and time.time() < t_end:
        progress = False
        muts = _candidates(best)
        for m in muts:
            if time.time() >= t_end:
                break
            cand = copy.deepcopy(best)
            try:
                if not m(cand):
                    continue
                _renumber(cand["spec"])
            except Exception:  # noqa
                continue
            try:
                ok = fails(cand)
            except Exception:  # noqa
                ok = False
            if ok:
                best = cand
                progress = True
                break  # recompute candidates on the smaller case
        # individual guard / action / reenter removals
        if not progress and time.time() < t_end:
            n = sum(1 for _ in _iter_transitions(best["spec"]))
            for k in range(n):
                for what in ("guard", "actions", "reenter"):
                    if time.time() >= t_end:
                        break
                    cand = copy.deepcopy(best)
                    t = [t for _, t in _iter_transitions(cand["spec"])][k]
                    if what == "guard" and t.get("guard") is not None:
                        t["guard"] = None
                    elif what == "actions" and len(t.get("actions") or []) > 1:
                        del t["actions"][1:]
                    elif what == "reenter" and t.get("reenter"):
                        t["reenter"] = False
                    else:
                        continue
                    try:
                        _renumber(cand["spec"])
                        ok = fails(cand)
                    except Exception:  # noqa
                        ok = False
                    if ok:
                        best = cand
                        progress = True
    # drop unused tables
    return best
