"""python -m xsmverif.show FILE — prints a replay file's machine compactly."""
import json
import sys


def fmt_guard(g):
    if g is None:
        return ""
    k = g["k"]
    if k in ("and", "or"):
        return "(" + f" {k} ".join(fmt_guard(x) for x in g["args"]) + ")"
    if k == "not":
        return "!" + fmt_guard(g["arg"])
    if k == "tab":
        return g["name"]
    if k == "in":
        return "in(" + ".".join(g["state"]) + ")"
    return k + ":" + str({x: v for x, v in g.items() if x != "k"})


def fmt_act(a):
    k = a["k"]
    if k in ("mark", "user"):
        return a["name"]
    if k == "assign":
        return "assign" + str(a["ops"])
    if k == "raise":
        return "raise(" + a["event"] + ")"
    if k == "choose":
        return "choose[" + " | ".join((fmt_guard(b.get("guard")) or "else") + "->" + ",".join(fmt_act(x) for x in b["actions"]) for b in a["branches"]) + "]"
    if k in ("pure", "enqueue"):
        return k + "[" + ",".join(fmt_act(x) for x in a["actions"]) + "]"
    return k


def fmt_t(t):
    if t.get("null"):
        return "NULL"
    tg = "-" if t.get("target") is None else "#" + ".".join(["m"] + t["target"])
    g = fmt_guard(t.get("guard"))
    return f"{tg}{' [' + g + ']' if g else ''}{' reenter' if t.get('reenter') else ''} / {','.join(fmt_act(a) for a in t.get('actions', []))}"


def show_state(s, ind=0, out=None):
    out = out if out is not None else []
    pad = " " * ind
    head = f"{pad}{s['key']} <{s['kind']}>"
    if s.get("initial"):
        head += f" initial={s['initial']}"
    if s["kind"] == "history":
        head += f" {s.get('hist')} default={s.get('htarget')}"
    out.append(head)
    for fam in ("entry", "exit"):
        if len(s.get(fam) or []) > 1:
            out.append(f"{pad}  {fam}: " + ",".join(fmt_act(a) for a in s[fam]))
    for ev, ts in s.get("on", []) or []:
        for t in ts:
            out.append(f"{pad}  on {ev}: {fmt_t(t)}")
    for t in s.get("always", []) or []:
        out.append(f"{pad}  always: {fmt_t(t)}")
    if s.get("onDone"):
        out.append(f"{pad}  onDone: {fmt_t(s['onDone'])}")
    for d, ts in s.get("after", []) or []:
        for t in ts:
            out.append(f"{pad}  after {d}: {fmt_t(t)}")
    for inv in s.get("invoke", []) or []:
        out.append(f"{pad}  invoke {inv.get('id')} src={inv['src']}")
        for t in inv.get("onDone", []) or []:
            out.append(f"{pad}    onDone: {fmt_t(t)}")
        for t in inv.get("onError", []) or []:
            out.append(f"{pad}    onError: {fmt_t(t)}")
    if s.get("output") is not None:
        out.append(f"{pad}  output: {s['output']}")
    for c in s.get("children", []) or []:
        show_state(c, ind + 2, out)
    return out


def show_case(case):
    lines = []
    spec = case.get("spec")
    if spec:
        lines += show_state(spec["root"])
        if spec.get("tables"):
            lines.append("tables: " + json.dumps(spec["tables"]))
        if spec.get("services"):
            lines.append("services: " + json.dumps(spec["services"]))
        for k in ("maxIterations", "context", "output", "impls", "delays"):
            if spec.get(k) is not None:
                lines.append(f"{k}: {json.dumps(spec[k])}")
    for k, v in case.items():
        if k != "spec":
            lines.append(f"{k}: {json.dumps(v)}")
    return "\n".join(lines)


if __name__ == "__main__":
    d = json.load(open(sys.argv[1]))
    print("property:", d["property"], "tag:", d["tag"])
    print("detail:", json.dumps(d["detail"], default=repr)[:1500])
    print(show_case(d["case"]))
