"""python -m xsmverif.seeded_eval [--only C01-1,...] [--props C01,C03]

Runs the quick tier of the relevant check(s) against every independently seeded breaking change in
/verif/seeded/<id>/patch.diff.  The patch is applied to a scratch copy of /repo/src (outside /repo and
/verif), the check runs with PYTHONPATH pointing at the copy and its outputs redirected to scratch, and
the copy is removed.  Results -> /verif/seeded/RESULTS.json."""
import argparse
import json
import os
import shutil
import subprocess
import sys
import tempfile
import time

ROOT = os.path.dirname(os.path.dirname(os.path.abspath(__file__)))
REPO = os.environ.get("XSM_REPO", "/repo")


def main():
    ap = argparse.ArgumentParser()
    ap.add_argument("--only")
    ap.add_argument("--props")
    ap.add_argument("--tier", default="quick")
    a = ap.parse_args()
    seeds = sorted(d for d in os.listdir(os.path.join(ROOT, "seeded")) if os.path.isdir(os.path.join(ROOT, "seeded", d)))
    if a.only:
        seeds = [s for s in seeds if s in a.only.split(",")]
    out_path = os.path.join(ROOT, "seeded", "RESULTS.json")
    results = json.load(open(out_path)) if os.path.exists(out_path) else []
    for sd in seeds:
        meta = json.load(open(os.path.join(ROOT, "seeded", sd, "meta.json")))
        props = a.props.split(",") if a.props else [meta.get("property", sd.split("-")[0])] + meta.get("also_check", [])
        for prop in props:
            tmp = tempfile.mkdtemp(prefix="xsm-seed-", dir=os.environ.get("TMPDIR", "/var/tmp"))
            try:
                shutil.copytree(os.path.join(REPO, "src"), os.path.join(tmp, "src"))
                p = subprocess.run(["patch", "-p1", "-s", "-i", os.path.join(ROOT, "seeded", sd, "patch.diff")], cwd=tmp, capture_output=True, text=True)
                if p.returncode != 0:
                    print(json.dumps({"seed": sd, "property": prop, "verdict": "patch-failed", "msg": p.stdout[-200:] + p.stderr[-200:]}))
                    continue
                env = dict(os.environ, PYTHONPATH=f"{ROOT}:{tmp}/src", PYTHONHASHSEED="0", XSM_OUT_DIR=os.path.join(tmp, "out"), XSM_VERDICT_ONLY="1")
                t0 = time.time()
                r = subprocess.run([sys.executable, "-m", "xsmverif.run", prop, "--tier", a.tier], cwd=ROOT, env=env, capture_output=True, text=True, timeout=7200)
                tags = [l.strip()[:220] for l in r.stdout.splitlines() if l.startswith("  tag=")][:4]
                verdict = {0: "MISSED", 1: "detected", 2: "harness-error"}.get(r.returncode, f"exit{r.returncode}")
                rec = {"seed": sd, "property": prop, "verdict": verdict, "wall_s": round(time.time() - t0, 1), "tags": tags,
                       "what": meta.get("what_changed", "")[:300]}
                print("SEEDRESULT " + json.dumps({k: rec[k] for k in ("seed", "property", "verdict", "wall_s")} | {"tags": [t[:160] for t in tags[:2]]}), flush=True)
                if verdict == "harness-error":
                    print(r.stderr[-800:])
                results = [x for x in results if not (x["seed"] == sd and x["property"] == prop)] + [rec]
                json.dump(results, open(out_path, "w"), indent=1)
            finally:
                shutil.rmtree(tmp, ignore_errors=True)


if __name__ == "__main__":
    main()
