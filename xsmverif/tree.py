"""Independent static model of a generated machine.

Built from the MachineSpec (never from the library's MachineNode) so that the oracles do not
inherit the library's own parse.  No import of xstate_statemachine here.
"""
from __future__ import annotations

from typing import Dict, FrozenSet, Iterable, List, Optional, Set, Tuple


class Node:
    __slots__ = (
        "id", "key", "kind", "parent", "children", "initial", "depth", "order",
        "hist", "htarget", "spec",
    )

    def __init__(self, id, key, kind, parent, depth, order, spec):
        self.id: str = id
        self.key: str = key
        self.kind: str = kind  # atomic | final | compound | parallel | history
        self.parent: Optional[str] = parent
        self.children: List[str] = []
        self.initial: Optional[str] = None  # id of initial child
        self.depth: int = depth
        self.order: int = order  # document order
        self.hist: Optional[str] = None
        self.htarget: Optional[str] = None
        self.spec = spec

    def __repr__(self):
        return f"Node({self.id},{self.kind})"


def path_to_id(machine_id: str, path: Iterable[str]) -> str:
    p = list(path)
    return machine_id if not p else machine_id + "." + ".".join(p)


class Tree:
    def __init__(self, spec: dict):
        self.spec = spec
        self.mid: str = spec["id"]
        self.nodes: Dict[str, Node] = {}
        self._order = 0
        self.root: str = self.mid
        self._build(spec["root"], None, self.mid, 0)
        # resolve history default targets
        for n in self.nodes.values():
            if n.kind == "history" and n.spec.get("htarget") is not None:
                n.htarget = path_to_id(self.mid, n.spec["htarget"])

    def _build(self, s: dict, parent: Optional[str], id: str, depth: int):
        n = Node(id, s.get("key", id), s["kind"], parent, depth, self._order, s)
        self._order += 1
        self.nodes[id] = n
        if s["kind"] == "history":
            n.hist = s.get("hist", "shallow")
        for c in s.get("children", []):
            cid = id + "." + c["key"]
            n.children.append(cid)
            self._build(c, id, cid, depth + 1)
        if s["kind"] == "compound":
            ini = s.get("initial")
            if ini is not None:
                n.initial = id + "." + ini
            else:
                real = [c for c in n.children if self.nodes[c].kind != "history"]
                if len(real) == 1:
                    n.initial = real[0]

    # ------------------------------------------------------------------ structure
    def __getitem__(self, id: str) -> Node:
        return self.nodes[id]

    def ids(self) -> List[str]:
        return list(self.nodes)

    def parent(self, id: str) -> Optional[str]:
        return self.nodes[id].parent

    def ancestors(self, id: str) -> List[str]:
        """Proper ancestors, nearest first."""
        out = []
        p = self.nodes[id].parent
        while p is not None:
            out.append(p)
            p = self.nodes[p].parent
        return out

    def anc_or_self(self, id: str) -> List[str]:
        return [id] + self.ancestors(id)

    def is_desc(self, a: str, b: str) -> bool:
        """a is b or a descendant of b."""
        return a == b or a.startswith(b + ".")

    def is_proper_desc(self, a: str, b: str) -> bool:
        return a != b and a.startswith(b + ".")

    def descendants(self, id: str) -> List[str]:
        return [x for x in self.nodes if self.is_proper_desc(x, id)]

    def subtree(self, id: str) -> List[str]:
        return [x for x in self.nodes if self.is_desc(x, id)]

    def real_children(self, id: str) -> List[str]:
        return [c for c in self.nodes[id].children if self.nodes[c].kind != "history"]

    def lca(self, a: str, b: str) -> str:
        """Least common ancestor-or-self of a and b."""
        aa = self.anc_or_self(a)
        bb = set(self.anc_or_self(b))
        for x in aa:
            if x in bb:
                return x
        return self.root

    def lcca(self, a: str, b: str) -> str:
        """Least common *proper* compound/parallel ancestor of both (or root)."""
        for x in self.ancestors(a):
            if self.is_proper_desc(b, x) or b == x:
                if b != x:
                    return x
        return self.root

    # ------------------------------------------------------------------ legality
    def legal(self, config: Iterable[str]) -> List[str]:
        """Returns the list of legality problems (empty list == legal)."""
        cfg = set(config)
        probs: List[str] = []
        if self.root not in cfg:
            probs.append("root-inactive")
        for s in sorted(cfg):
            n = self.nodes.get(s)
            if n is None:
                probs.append(f"unknown-state:{s}")
                continue
            if n.kind == "history":
                probs.append(f"history-active:{s}")
            if n.parent is not None and n.parent not in cfg:
                probs.append(f"orphan:{s}")
            act = [c for c in n.children if c in cfg]
            if n.kind == "compound":
                real = [c for c in act if self.nodes[c].kind != "history"]
                if len(real) != 1:
                    probs.append(f"compound-children={len(real)}:{s}")
            elif n.kind == "parallel":
                for c in self.real_children(s):
                    if c not in cfg:
                        probs.append(f"parallel-region-inactive:{c}")
            elif n.kind in ("atomic", "final"):
                if act:
                    probs.append(f"leaf-with-children:{s}")
        return probs

    def problem_classes(self, probs: List[str]) -> List[str]:
        return sorted({p.split(":")[0].split("=")[0] for p in probs})

    def leaves(self, config: Iterable[str]) -> List[str]:
        return sorted(s for s in config if s in self.nodes and self.nodes[s].kind in ("atomic", "final"))

    def default_entry(self, id: str) -> Set[str]:
        """States active below-and-including `id` after entering it by default."""
        out = {id}
        n = self.nodes[id]
        if n.kind == "compound":
            if n.initial is not None:
                out |= self.default_entry(n.initial)
        elif n.kind == "parallel":
            for c in self.real_children(id):
                out |= self.default_entry(c)
        return out

    def initial_config(self) -> Set[str]:
        return self.default_entry(self.root)

    # ------------------------------------------------------------------ done-ness
    def done(self, id: str, config: Set[str]) -> bool:
        """Done-ness as the library documents it (final; compound: active child done;
        parallel: every non-history region done)."""
        n = self.nodes[id]
        if n.kind == "final":
            return True
        if n.kind == "compound":
            act = [c for c in n.children if c in config and self.nodes[c].kind != "history"]
            if not act:
                return False
            return self.done(act[0], config)
        if n.kind == "parallel":
            regs = self.real_children(id)
            if not regs:
                return True
            for r in regs:
                if r not in config:
                    return False
                if not self.done(r, config):
                    return False
            return True
        return False

    # ------------------------------------------------------------------ target spellings (documented resolution)
    def _descend(self, start: str, segs) -> Optional[str]:
        cur = start
        for k in segs:
            nxt = None
            for c in self.nodes[cur].children:
                if self.nodes[c].key == k:
                    nxt = c
                    break
            if nxt is None:
                return None
            cur = nxt
        return cur

    def resolve_plain(self, src: str, text: str) -> Optional[str]:
        """Plain identifier: descendant of the reference, else the reference itself if its key
        matches a single segment, else the same one level up ("bubbling")."""
        segs = text.split(".")
        cur: Optional[str] = src
        while cur is not None:
            hit = self._descend(cur, segs)
            if hit is not None:
                return hit
            if len(segs) == 1 and self.nodes[cur].key == segs[0]:
                return cur
            cur = self.nodes[cur].parent
        return None

    def resolve_dot(self, src: str, text: str) -> Optional[str]:
        """Leading-dot relative path: resolved from the source's parent."""
        base = self.nodes[src].parent or src
        if text == ".":
            return base
        return self._descend(base, text[1:].split("."))

    def spellings(self, src: str, tgt: str, cids: Optional[Dict[str, str]] = None) -> List[str]:
        """Every spelling that denotes `tgt` from `src` under the documented resolution order."""
        out = ["#" + tgt]
        keys = tgt.split(".")[1:]
        # plain spellings: every suffix of the path
        for i in range(len(keys)):
            text = ".".join(keys[i:])
            if text and self.resolve_plain(src, text) == tgt:
                # the interpreter also tries the text from the parent and the root; bubbling from the
                # source already covers those references
                out.append(text)
        base = self.nodes[src].parent or src
        if tgt != base and self.is_proper_desc(tgt, base):
            rel = tgt[len(base) + 1:]
            if self.resolve_dot(src, "." + rel) == tgt:
                out.append("." + rel)
        for cid, sid in (cids or {}).items():
            if sid == tgt:
                out.append("#" + cid)
            elif self.is_proper_desc(tgt, sid):
                out.append("#" + cid + "." + tgt[len(sid) + 1:])
        return out

    def has_kind(self, kind: str) -> bool:
        return any(n.kind == kind for n in self.nodes.values())


def relation_class(tree: Tree, src: str, tgt: Optional[str], reenter: bool = False) -> str:
    """Classifies a transition by the structural relation of source and target."""
    if tgt is None:
        return "targetless"
    tn = tree[tgt]
    if tn.kind == "history":
        par = tn.parent
        inside = tree.is_desc(src, par)
        pk = tree[par].kind
        return f"history-{'inside' if inside else 'outside'}-{pk}"
    if tgt == tree.root:
        return "root"
    if tgt == src:
        return "self-reenter" if reenter else "self"
    if tree.is_proper_desc(tgt, src):
        return "child" if tree[tgt].parent == src else "descendant"
    if tree.is_proper_desc(src, tgt):
        return "parent" if tree[src].parent == tgt else "ancestor"
    if tree[src].parent == tree[tgt].parent:
        pk = tree[tree[src].parent].kind if tree[src].parent else "compound"
        return "sibling-region" if pk == "parallel" else "sibling"
    l = tree.lca(src, tgt)
    if tree[l].kind == "parallel":
        return "cross-region"
    # crossing a parallel boundary?
    def crosses(x):
        for a in tree.ancestors(x):
            if a == l:
                break
            if tree[a].kind == "parallel":
                return True
        return tree[x].kind == "parallel" and x != l
    if crosses(tgt) and crosses(src):
        return "cross-branch-par-both"
    if crosses(tgt):
        return "into-parallel"
    if crosses(src):
        return "out-of-parallel"
    return "cross-branch"
