"""python -m xsmverif.replay FILE — re-executes one replay file without Hypothesis.

Exit 1 (and a VIOLATION line) if a violation with the recorded tag reproduces, 0 if the case now
passes, 2 on a harness error."""
import json
import os
import sys
import traceback


def main(argv=None) -> int:
    argv = argv if argv is not None else sys.argv[1:]
    if not argv:
        print("usage: python -m xsmverif.replay FILE", file=sys.stderr)
        return 2
    path = argv[0]
    try:
        with open(path) as f:
            data = json.load(f)
        from .runner import load_check

        check = load_check(data["property"])
        res = check.check_case(data["case"])
    except BaseException:  # noqa
        traceback.print_exc()
        return 2
    tags = [t for t, _ in res.violations]
    print(f"replay {os.path.basename(path)}: recorded tag={data['tag']} observed tags={tags}")
    for t, d in res.violations:
        print("  ", t, json.dumps(d, default=repr)[:800])
    if data["tag"] in tags:
        print(f"VIOLATION property={data['property']} replay={path}")
        return 1
    if tags:
        print("note: the recorded tag did not reproduce but other violations did")
        print(f"VIOLATION property={data['property']} replay={path}")
        return 1
    return 0


if __name__ == "__main__":
    sys.exit(main())
