"""Runs inside a fresh subprocess: imports the generated module(s) and reports what happened.

usage: python -m xsmverif.tools.c17_probe <outdir> <json_path> <template> <stem>
Prints one line: PROBE <json>"""
import contextlib
import importlib
import io
import json
import logging
import os
import sys


def main():
    outdir, json_path, template, stem = sys.argv[1:5]
    logging.disable(logging.CRITICAL)
    rep = {"imported": False, "started": 0, "stdout": "", "new_files": [], "error": None}
    import xstate_statemachine as xs
    from xstate_statemachine import Interpreter, SyncInterpreter

    started = []
    _s1, _s2 = SyncInterpreter.start, Interpreter.start
    SyncInterpreter.start = lambda self, *a, **k: (started.append("sync"), _s1(self, *a, **k))[1]

    async def _astart(self, *a, **k):
        started.append("async")
        return await _s2(self, *a, **k)

    Interpreter.start = _astart
    before = set()
    for root, _, files in os.walk(outdir):
        for f in files:
            if not f.endswith(".pyc"):
                before.add(os.path.join(root, f))
    cwd_before = set(os.listdir("."))
    sys.path.insert(0, outdir)
    sys.dont_write_bytecode = True
    buf = io.StringIO()
    mods = {}
    try:
        with contextlib.redirect_stdout(buf), contextlib.redirect_stderr(io.StringIO()):
            names = [f[:-3] for f in sorted(os.listdir(outdir)) if f.endswith(".py")]
            for n in names:
                mods[n] = importlib.import_module(n)
        rep["imported"] = True
    except BaseException as e:  # noqa
        rep["error"] = f"import:{type(e).__name__}:{str(e)[:200]}"
    rep["stdout"] = buf.getvalue()[:300]
    rep["started"] = len(started)
    after = set()
    for root, _, files in os.walk(outdir):
        for f in files:
            if not f.endswith(".pyc") and "__pycache__" not in root:
                after.add(os.path.join(root, f))
    rep["new_files"] = sorted(after - before) + sorted(set(os.listdir(".")) - cwd_before)
    if rep["imported"]:
        cfg = json.load(open(json_path))
        try:
            from xsmverif.fingerprint import machine_fp

            if template.startswith("pythonic"):
                machine = None
                for m in mods.values():
                    if template == "pythonic-class":
                        from xstate_statemachine.pythonic import StateMachine

                        for v in vars(m).values():
                            if isinstance(v, type) and issubclass(v, StateMachine) and v is not StateMachine:
                                machine = v.create_machine()
                    elif hasattr(m, "build"):
                        machine = m.build()
                    if machine is not None:
                        break
                if machine is None:
                    rep["error"] = "no-entry-point"
                else:
                    rep["fp"] = machine_fp(machine)
            else:
                # JSON-loading templates: the generated logic must bind every referenced name
                from xstate_statemachine import create_machine

                logic_mod = next((m for n, m in mods.items() if n.endswith("_logic")), None) or next(iter(mods.values()))
                if template == "class-json":
                    cls = next((v for k, v in vars(logic_mod).items() if isinstance(v, type) and k.endswith("Logic") and v.__module__ == logic_mod.__name__), None)
                    machine = create_machine(cfg, logic_providers=[cls()])
                else:
                    machine = create_machine(cfg, logic_modules=[logic_mod])
                rep["bound"] = True
        except BaseException as e:  # noqa
            rep["error"] = f"build:{type(e).__name__}:{str(e)[:300]}"
    rep["canary"] = os.path.exists("CANARY") or os.path.exists(os.path.join(outdir, "CANARY"))
    print("PROBE " + json.dumps(rep, default=repr))


if __name__ == "__main__":
    main()
