"""Oracle self-test: each oracle must accept a hand-written good example and reject a doctored one."""
import sys


def main() -> int:
    from .tree import Tree

    spec = {"id": "m", "root": {"key": "m", "kind": "compound", "initial": "a", "children": [
        {"key": "a", "kind": "atomic"},
        {"key": "p", "kind": "parallel", "children": [
            {"key": "x", "kind": "compound", "initial": "f", "children": [{"key": "f", "kind": "final"}, {"key": "g", "kind": "atomic"}]},
            {"key": "y", "kind": "atomic"},
            {"key": "h", "kind": "history", "hist": "deep"}]}]}}
    t = Tree(spec)
    ok = True

    def expect(cond, what):
        nonlocal ok
        if not cond:
            ok = False
            print("SELFTEST FAIL:", what)

    expect(t.legal({"m", "m.a"}) == [], "legal simple")
    expect(t.legal({"m", "m.p", "m.p.x", "m.p.x.f", "m.p.y"}) == [], "legal parallel")
    expect(t.legal({"m"}) != [], "reject childless compound")
    expect(t.legal({"m", "m.p", "m.p.x", "m.p.x.f"}) != [], "reject missing region")
    expect(t.legal({"m", "m.a", "m.p", "m.p.x", "m.p.x.f", "m.p.y"}) != [], "reject two children")
    expect(t.legal({"m", "m.p", "m.p.x", "m.p.x.f", "m.p.y", "m.p.h"}) != [], "reject active history")
    expect(t.legal({"m.a"}) != [], "reject inactive root")
    expect(t.done("m.p.x", {"m", "m.p", "m.p.x", "m.p.x.f", "m.p.y"}), "done compound")
    expect(not t.done("m.p", {"m", "m.p", "m.p.x", "m.p.x.f", "m.p.y"}), "parallel not done")
    from .refsel import matching_keys

    expect(matching_keys(["a.*", "a.b.*", "*", "a.b"], "a.b") == ["a.b", "a.b.*", "a.*", "*"], "descriptor order")
    expect(matching_keys(["*", "done.*"], "done.state.x") == [], "internal events private")
    print("selftest", "ok" if ok else "FAILED")
    return 0 if ok else 1


if __name__ == "__main__":
    sys.exit(main())
