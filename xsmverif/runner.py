"""Tiers, seeds, sharding over processes, collect-then-shrink loop, evidence + replay writers.

Exit codes: 0 = property held on everything explored (KNOWN-FINDING lines allowed);
            1 = at least one `VIOLATION property=<id> replay=<path>` line;
            2 = harness error (never printed as a violation).
"""
from __future__ import annotations

import argparse
import collections
import hashlib
import importlib
import json
import pickle
import multiprocessing as mp
import os
import signal
import sys
import time
import traceback
from typing import Any, Dict, List, Optional

ROOT = os.path.dirname(os.path.dirname(os.path.abspath(__file__)))
_OUT = os.environ.get("XSM_OUT_DIR")  # sensitivity runs redirect evidence + replays to scratch
EVIDENCE_DIR = os.path.join(_OUT, "evidence") if _OUT else os.path.join(ROOT, "evidence")
REPLAY_DIR = os.path.join(_OUT, "replays") if _OUT else os.path.join(ROOT, "replays")


class Hang(BaseException):
    pass


class PropertyViolation(Exception):
    pass


class CaseResult:
    __slots__ = ("violations", "nontrivial", "classes", "inconclusive", "excluded", "sample", "extra_evals",
                 "nontrivial_keys")

    def __init__(self):
        self.violations: List[tuple] = []  # (tag, detail)
        self.nontrivial: bool = False
        self.classes: List[str] = []
        self.inconclusive: Optional[str] = None
        self.excluded: Dict[str, int] = {}
        self.sample: Any = None
        self.extra_evals: int = 0  # additional executions performed inside this case (twins, cuts, ...)
        self.nontrivial_keys: Optional[List[str]] = None  # distinct non-trivial sub-cases (else the case itself)

    def violate(self, tag: str, detail: Any):
        self.violations.append((tag, detail))


def stable_seed(seed: int, prop: str, shard: int, rnd: int = 0) -> int:
    h = hashlib.sha256(f"{seed}:{prop}:{shard}:{rnd}".encode()).hexdigest()
    return int(h[:8], 16)


def case_fp(case: Any) -> str:
    return hashlib.sha1(json.dumps(case, sort_keys=True, default=repr).encode()).hexdigest()[:16]


def _alarm(signum, frame):
    raise Hang()


def load_check(prop: str):
    return importlib.import_module("xsmverif.checks." + prop.lower())


# ----------------------------------------------------------------------------- shard
def _structural_shrink(check, case, tag, detail, case_timeout, budget):
    """Second shrink pass on the JSON case itself (see shrink.py)."""
    from .shrink import shrink_case

    found = {"detail": detail}

    def fails(c):
        signal.setitimer(signal.ITIMER_REAL, case_timeout, 3.0)
        try:
            res = check.check_case(c)
        except Hang:
            return False
        finally:
            signal.setitimer(signal.ITIMER_REAL, 0)
        for t, d in res.violations:
            if t == tag:
                found["detail"] = d
                return True
        return False

    shrinker = getattr(check, "shrink_case", None) or shrink_case
    try:
        small = shrinker(case, fails, budget)
        if small is not case and fails(small):
            return small, found["detail"]
    except Hang:
        pass
    except Exception:  # noqa
        pass
    return case, detail


def run_shard(args) -> dict:
    prop, tier, seed, shard, nshards, n_examples, campaign = args
    os.environ.setdefault("PYTHONHASHSEED", "0")
    import hypothesis
    from hypothesis import HealthCheck, Phase, given, settings
    import hypothesis.internal.conjecture.engine as eng

    from . import findings

    eng.MAX_SHRINKING_SECONDS = 15 if tier == "quick" else 60
    check = load_check(prop)
    open_findings = findings.open_for(prop)
    out: Dict[str, Any] = {
        "shard": shard,
        "campaign": campaign,
        "evaluations": 0,
        "extra_evals": 0,
        "nontrivial": set(),
        "hist": collections.Counter(),
        "inconclusive": collections.Counter(),
        "excluded": collections.Counter(),
        "known": {},
        "violations": [],
        "samples": [],
        "timeouts": 0,
        "error": None,
        "planned": n_examples,
    }
    state = {"target": None, "last": None}
    suppressed = set()
    signal.signal(signal.SIGALRM, _alarm)
    case_timeout = getattr(check, "CASE_TIMEOUT", 30)
    strategy = check.strategy(tier, campaign)

    def prop_fn(case):
        out["evaluations"] += 1
        signal.setitimer(signal.ITIMER_REAL, case_timeout, 3.0)
        try:
            res = check.check_case(case)
        except Hang:
            out["timeouts"] += 1
            return
        finally:
            signal.setitimer(signal.ITIMER_REAL, 0)
        out["extra_evals"] += res.extra_evals
        if res.nontrivial:
            if res.nontrivial_keys is not None:
                out["nontrivial"].update(res.nontrivial_keys)
            else:
                out["nontrivial"].add(case_fp(case))
        for c in res.classes:
            out["hist"][c] += 1
        if res.inconclusive:
            out["inconclusive"][res.inconclusive] += 1
        for k, v in (res.excluded or {}).items():
            out["excluded"][k] += v
        if res.sample is not None and len(out["samples"]) < 3 and res.nontrivial and not res.violations:
            out["samples"].append(res.sample)
        for tag, detail in res.violations:
            kf = findings.match_open(open_findings, prop, tag)
            if kf is not None:
                ent = out["known"].setdefault(kf.tag, {"count": 0, "what": kf.what, "tags": {}})
                ent["count"] += 1
                ent["tags"][tag] = ent["tags"].get(tag, 0) + 1
                continue
            if tag in suppressed:
                continue
            if state["target"] is None:
                state["target"] = tag
            if tag == state["target"]:
                state["last"] = (case, tag, detail)
                raise PropertyViolation(tag)

    max_rounds = 6 if tier == "quick" else 10
    # XSM_VERDICT_ONLY=1 (used by the seeded / mutant evaluations, which only need "detected or not"):
    # the first violation of a shard is kept as generated - no shrinking, no further rounds
    verdict_only = os.environ.get("XSM_VERDICT_ONLY") == "1"
    if verdict_only:
        max_rounds = 1
    try:
        for rnd in range(max_rounds):
            state["target"] = None
            state["last"] = None
            test = given(strategy)(prop_fn)
            test = hypothesis.seed(stable_seed(seed, prop + campaign, shard, rnd))(test)
            test = settings(
                max_examples=n_examples,
                database=None,
                deadline=None,
                report_multiple_bugs=False,
                derandomize=False,
                suppress_health_check=list(HealthCheck),
                phases=[Phase.generate] if (getattr(check, "NO_SHRINK", False) or verdict_only) else [Phase.generate, Phase.shrink],
                print_blob=False,
            )(test)
            try:
                test()
                break
            except PropertyViolation:
                case, tag, detail = state["last"]
                if not verdict_only:
                    case, detail = _structural_shrink(check, case, tag, detail, case_timeout,
                                                      20.0 if tier == "quick" else 60.0)
                out["violations"].append({"tag": tag, "detail": detail, "case": case})
                suppressed.add(tag)
            except Hang:
                out["timeouts"] += 1
    except BaseException as e:  # noqa
        out["error"] = "".join(traceback.format_exception(type(e), e, e.__traceback__))[-4000:]
    out["nontrivial"] = list(out["nontrivial"])
    out["hist"] = dict(out["hist"])
    out["inconclusive"] = dict(out["inconclusive"])
    out["excluded"] = dict(out["excluded"])
    return out


def _shard_entry(task, path):
    r = run_shard(task)
    with open(path + ".tmp", "wb") as f:
        pickle.dump(r, f)
    os.replace(path + ".tmp", path)


def run_tasks(tasks, jobs, shard_budget_s):
    """Runs every shard in a process of its own (at most `jobs` at a time) and collects the results
    from files. No queue, lock or pipe is shared between the shards: a shard that dies (or is
    killed after `shard_budget_s`) costs its own result and a harness-error line - it cannot wedge
    the others, which a multiprocessing.Pool does when a worker dies holding the task-queue lock."""
    import shutil
    import tempfile

    ctx = mp.get_context("fork")
    tmpdir = tempfile.mkdtemp(prefix="xsm-run-", dir=os.environ.get("TMPDIR", "/var/tmp"))
    pending = list(enumerate(tasks))
    running = {}
    results, errors = [], []
    try:
        while pending or running:
            while pending and len(running) < jobs:
                i, task = pending.pop(0)
                path = os.path.join(tmpdir, f"shard{i}.pkl")
                p = ctx.Process(target=_shard_entry, args=(task, path))
                p.start()
                running[i] = (p, path, task, time.time())
            time.sleep(0.05)
            for i, (p, path, task, t_start) in list(running.items()):
                if p.is_alive():
                    if time.time() - t_start > shard_budget_s:
                        p.kill()
                        p.join(5)
                        del running[i]
                        errors.append(f"shard {task[6]}#{task[3]} exceeded its wall budget of {shard_budget_s}s and was killed (inconclusive)")
                    continue
                p.join()
                del running[i]
                if os.path.exists(path):
                    with open(path, "rb") as f:
                        r = pickle.load(f)
                    results.append(r)
                    if r["error"]:
                        errors.append(r["error"])
                else:
                    errors.append(f"shard {task[6]}#{task[3]} exited with code {p.exitcode} without a result")
    finally:
        for p, *_ in running.values():
            try:
                p.kill()
            except Exception:  # noqa
                pass
        shutil.rmtree(tmpdir, ignore_errors=True)
    return results, errors


# ----------------------------------------------------------------------------- main
def write_replay(prop: str, tag: str, case: Any, detail: Any) -> str:
    d = os.path.join(REPLAY_DIR, prop)
    os.makedirs(d, exist_ok=True)
    safe = "".join(ch if ch.isalnum() or ch in "-_." else "_" for ch in tag)[:80]
    path = os.path.join(d, f"{safe}-{case_fp(case)[:10]}.json")
    with open(path, "w") as f:
        json.dump({"property": prop, "tag": tag, "detail": detail, "case": case}, f, indent=1, default=repr,
                  sort_keys=True)
    return path


def run_property(prop: str, tier: str, seed: int, jobs: int = 16) -> int:
    t0 = time.time()
    check = load_check(prop)
    plan = check.plan(tier)  # list of campaigns: {"name", "examples", "shards"}
    tasks = []
    for camp in plan:
        shards = camp.get("shards", jobs)
        per = max(1, camp["examples"] // shards)
        for i in range(shards):
            tasks.append((prop, tier, seed, i, shards, per, camp["name"]))
    results, harness_errors = run_tasks(tasks, jobs, shard_budget_s=1800 if tier == "quick" else 6 * 3600)
    # ---- optional exhaustive / non-hypothesis part implemented by the check itself
    extra = None
    if hasattr(check, "extra_run"):
        try:
            extra = check.extra_run(tier, seed, jobs)
        except BaseException as e:  # noqa
            harness_errors.append("".join(traceback.format_exception(type(e), e, e.__traceback__))[-4000:])
    return finish(prop, tier, seed, check, results, extra, harness_errors, t0)


def finish(prop, tier, seed, check, results, extra, harness_errors, t0) -> int:
    from . import findings

    evaluations = sum(r["evaluations"] for r in results)
    extra_evals = sum(r["extra_evals"] for r in results)
    nontrivial = set()
    hist = collections.Counter()
    inconcl = collections.Counter()
    excluded = collections.Counter()
    known: Dict[str, dict] = {}
    violations: List[dict] = []
    samples: List[Any] = []
    timeouts = 0
    planned = 0
    per_campaign = collections.Counter()
    for r in results:
        nontrivial.update(r["nontrivial"])
        hist.update(r["hist"])
        inconcl.update(r["inconclusive"])
        excluded.update(r["excluded"])
        timeouts += r["timeouts"]
        planned += r["planned"]
        per_campaign[r["campaign"]] += r["evaluations"]
        for k, v in r["known"].items():
            e = known.setdefault(k, {"count": 0, "what": v["what"], "tags": {}})
            e["count"] += v["count"]
            for t, c in v["tags"].items():
                e["tags"][t] = e["tags"].get(t, 0) + c
        violations.extend(r["violations"])
        for s in r["samples"]:
            if len(samples) < 5:
                samples.append(s)
    if extra:
        evaluations += extra.get("evaluations", 0)
        nontrivial.update(extra.get("nontrivial") or [])
        hist.update(extra.get("hist", {}))
        violations.extend(extra.get("violations", []))
        for s in extra.get("samples", []):
            if len(samples) < 6:
                samples.append(s)
        for k, v in extra.get("known", {}).items():
            e = known.setdefault(k, {"count": 0, "what": v["what"], "tags": {}})
            e["count"] += v["count"]
    # ---- classify violations coming from `extra` against open findings
    open_f = findings.open_for(prop)
    real: Dict[str, dict] = {}
    for v in violations:
        kf = findings.match_open(open_f, prop, v["tag"])
        if kf is not None:
            e = known.setdefault(kf.tag, {"count": 0, "what": kf.what, "tags": {}})
            e["count"] += 1
            continue
        real.setdefault(v["tag"], v)
    lines = []
    for tag, e in sorted(known.items()):
        lines.append(f"KNOWN-FINDING: property={prop} [{tag}] {e['what']} (seen {e['count']}x)")
    vio_paths = []
    for tag, v in sorted(real.items()):
        path = write_replay(prop, tag, v["case"], v["detail"])
        vio_paths.append(path)
        lines.append(f"VIOLATION property={prop} replay={path}")
        lines.append(f"  tag={tag} detail={json.dumps(v['detail'], default=repr)[:600]}")
    wall = time.time() - t0
    level = getattr(check, "LEVEL", "exploration")
    if not samples:
        samples = [{"note": "no non-trivial sample captured"}]
    coverage = {
        "evaluations": evaluations + extra_evals,
        "generated_cases": evaluations,
        "executions_inside_cases": extra_evals,
        "distinct_nontrivial": len(nontrivial) + int((extra or {}).get("nontrivial_count", 0)),
        "rule": check.RULE,
        "samples": samples,
        "class_histogram": dict(sorted(hist.items(), key=lambda kv: -kv[1])[:60]),
        "inconclusive": dict(inconcl),
        "excluded_by_open_findings": dict(excluded),
        "timeouts": timeouts,
        "planned_cases": planned,
        "per_campaign": dict(per_campaign),
        "known_findings_seen": {k: {"count": v["count"], "tags": dict(sorted(v["tags"].items(), key=lambda kv: -kv[1])[:8])} for k, v in known.items()},
        "violation_tags": sorted(real),
    }
    if extra and extra.get("coverage"):
        coverage.update(extra["coverage"])
    if level == "translation_validation":
        coverage.setdefault("programs", evaluations)
        coverage.setdefault("disagreements_checked", len(real) + sum(v["count"] for v in known.values()))
    ev = {
        "property_id": prop,
        "tier": tier,
        "seed": seed,
        "level": level,
        "coverage": coverage,
        "assumptions": getattr(check, "ASSUMPTIONS", []),
        "wall_s": round(wall, 2),
        "violations": len(real),
    }
    os.makedirs(EVIDENCE_DIR, exist_ok=True)
    with open(os.path.join(EVIDENCE_DIR, f"{prop}.json"), "w") as f:
        json.dump(ev, f, indent=1, default=repr)
    for l in lines:
        print(l)
    print(f"[{prop}] tier={tier} seed={seed} cases={evaluations} (+{extra_evals} inner) nontrivial={len(nontrivial)} "
          f"timeouts={timeouts} inconclusive={dict(inconcl)} known={ {k: v['count'] for k, v in known.items()} } "
          f"violations={len(real)} wall={wall:.1f}s")
    if harness_errors:
        print("HARNESS-ERROR (not a violation):", file=sys.stderr)
        for e in harness_errors[:3]:
            print(e, file=sys.stderr)
        if real:
            return 1
        return 2
    if real:
        return 1
    if evaluations < planned * 0.5:
        print(f"HARNESS-ERROR: only {evaluations} of {planned} planned cases ran", file=sys.stderr)
        return 2
    if timeouts > max(5, evaluations // 50):
        print(f"HARNESS-ERROR: too many timeouts ({timeouts})", file=sys.stderr)
        return 2
    return 0


def main(argv=None) -> int:
    ap = argparse.ArgumentParser()
    ap.add_argument("prop")
    ap.add_argument("--tier", default=os.environ.get("VERIF_TIER", "quick"))
    ap.add_argument("--seed", type=int, default=None)
    ap.add_argument("--jobs", type=int, default=int(os.environ.get("VERIF_JOBS", "16")))
    a = ap.parse_args(argv)
    seed = a.seed if a.seed is not None else int(os.environ.get("VERIF_SEED", "1") or 1)
    tier = a.tier if a.tier in ("quick", "thorough") else "quick"
    try:
        return run_property(a.prop.upper(), tier, seed, a.jobs)
    except SystemExit:
        raise
    except BaseException:  # noqa
        traceback.print_exc()
        return 2


if __name__ == "__main__":
    sys.exit(main())
