"""Recorder: total-ordered log of everything the engine executed, PluginTap, step budget, faults.

Log entries are tuples whose first element is the kind:
  ("act",  name, ev_type, ev_seq, ev_data_repr, vt)         a marker / user action ran
  ("recv", ev_type, ev_seq, vt)                             on_event_received
  ("trans", tid|None, from_cfg, to_cfg, live_cfg, vt)       on_transition hook
  ("sub",  live_cfg, status, vt)                            subscriber callback
  ("guard", name, result)                                   on_guard_evaluated
  ("gcall", name, value)                                    a user guard was called (value or 'raise')
  ("aexec", action_type)                                    on_action_execute
  ("aerr", action_type, repr(exc))                          on_action_error
  ("svc", what, invoke_id, extra, vt)                       service start/done/error hook or call
  ("life", what)                                            on_interpreter_start/stop, on_done, on_error
  ("emit", ev_type)                                         emit listener
"""
from __future__ import annotations

from typing import Any, Callable, Dict, List, Optional, Set


class StepBudgetExceeded(BaseException):
    """Raised (as BaseException so the engine's `except Exception` cannot swallow it) when a
    single run executes far more steps than the engine promises."""


class InjectedFault(Exception):
    """The exception thrown by fault injection."""


def ev_seq(event: Any) -> Any:
    p = getattr(event, "payload", None)
    if isinstance(p, dict):
        return p.get("seq")
    return None


def ev_data(event: Any) -> Any:
    if hasattr(event, "data") and not hasattr(event, "payload"):
        d = event.data
        if isinstance(d, BaseException):
            return "exc:" + type(d).__name__ + ":" + str(d)
        return d
    return None


class Recorder:
    def __init__(self, budget: int = 20000, clock: Optional[Callable[[], float]] = None):
        self.log: List[tuple] = []
        self.budget = budget
        self.steps = 0
        self.epoch = 0  # number of on_transition hooks seen so far
        self.clock = clock or (lambda: 0.0)
        self.tables: Dict[str, list] = {}
        # fault injection: call-site counter + plan
        self.site = 0
        self.fault_plan: Set[int] = set()
        self.sites: List[tuple] = []  # (index, kind, name)
        self.record_sites = False
        self.interp = None  # primary interpreter (set by driver) to read live cfg
        self.user_calls = 0  # user action calls (for purity)
        self.enabled = True
        self.blown = False  # the step budget was exceeded somewhere (any thread / task)
        self.iter_fn = None  # async: returns the event-loop iteration counter (who yielded when)

    # ---- helpers
    def now(self) -> float:
        return round(self.clock(), 9)

    def step(self):
        self.steps += 1
        if self.steps > self.budget:
            self.blown = True
            raise StepBudgetExceeded(f"step budget {self.budget} exceeded")

    def fault_site(self, kind: str, name: str):
        """Marks a point where user code runs; raises InjectedFault if planned."""
        i = self.site
        self.site += 1
        if self.record_sites:
            self.sites.append((i, kind, name))
        if i in self.fault_plan:
            self.log.append(("fault", i, kind, name))
            raise InjectedFault(f"fault@{i}:{kind}:{name}")

    def live_cfg(self, interp=None):
        it = interp if interp is not None else self.interp
        if it is None:
            return None
        return frozenset(n.id for n in list(it._active_state_nodes))

    def mark(self) -> int:
        return len(self.log)

    def since(self, m: int) -> List[tuple]:
        return self.log[m:]

    # ---- entries
    def act(self, name: str, event: Any):
        self.step()
        self.user_calls += 1
        self.log.append(("act", name, getattr(event, "type", None), ev_seq(event), ev_data(event), self.now()))


class Tap:
    """Plugin receiving every hook.  Deliberately a plain duck-typed object."""

    def __init__(self, rec: Recorder, tag: str = ""):
        self.rec = rec
        self.tag = tag

    def on_interpreter_start(self, interp):
        self.rec.log.append(("life", "start" + self.tag))
        self.rec.fault_site("hook", "on_interpreter_start")

    def on_interpreter_stop(self, interp):
        self.rec.log.append(("life", "stop" + self.tag))
        self.rec.fault_site("hook", "on_interpreter_stop")

    def on_event_received(self, interp, event):
        self.rec.step()
        self.rec.log.append(("recv", event.type, ev_seq(event), self.rec.now(),
                             self.rec.iter_fn() if self.rec.iter_fn else None))
        self.rec.fault_site("hook", "on_event_received")

    def on_transition(self, interp, from_states, to_states, transition):
        self.rec.step()
        ev = getattr(transition, "event", None)
        if ev != "___xstate_statemachine_init___":
            # the sync engine reports the initial entry as a pseudo-transition *after* settling;
            # it must not move the guard tables (nothing is re-selected after it)
            self.rec.epoch += 1
        acts = getattr(transition, "actions", None) or []
        tid = None
        for a in acts:
            t = getattr(a, "type", "")
            if isinstance(t, str) and t.startswith("t") and t[1:].isdigit():
                tid = t
                break
        self.rec.log.append(
            (
                "trans",
                tid,
                frozenset(n.id for n in list(from_states)),
                frozenset(n.id for n in list(to_states)),
                self.rec.live_cfg(interp),
                self.rec.now(),
                ev,
                getattr(getattr(transition, "source", None), "id", None),
            )
        )
        self.rec.fault_site("hook", "on_transition")

    def on_action_execute(self, interp, action):
        self.rec.log.append(("aexec", action.type))
        self.rec.fault_site("hook", "on_action_execute")

    def on_action_error(self, interp, action, error):
        self.rec.log.append(("aerr", action.type, type(error).__name__))
        self.rec.fault_site("hook", "on_action_error")

    def on_guard_evaluated(self, interp, guard_name, event, result):
        self.rec.log.append(("guard", guard_name, bool(result)))
        self.rec.fault_site("hook", "on_guard_evaluated")

    def on_service_start(self, interp, invocation):
        self.rec.log.append(("svc", "hook-start", invocation.id, None, self.rec.now()))
        self.rec.fault_site("hook", "on_service_start")

    def on_service_done(self, interp, invocation, result):
        self.rec.log.append(("svc", "hook-done", invocation.id, repr(result), self.rec.now()))
        self.rec.fault_site("hook", "on_service_done")

    def on_service_error(self, interp, invocation, error):
        self.rec.log.append(("svc", "hook-error", invocation.id, type(error).__name__, self.rec.now()))
        self.rec.fault_site("hook", "on_service_error")

    def on_done(self, interp, output):
        self.rec.log.append(("life", "done" + self.tag, repr(output)))
        self.rec.fault_site("hook", "on_done")

    def on_error(self, interp, error):
        self.rec.log.append(("life", "error" + self.tag, type(error).__name__))
        self.rec.fault_site("hook", "on_error")


def make_subscriber(rec: Recorder):
    def _sub(interp):
        rec.step()
        rec.log.append(("sub", rec.live_cfg(interp), interp.status, rec.now()))
        rec.fault_site("subscriber", "sub")

    return _sub


def make_witness_subscriber(rec: Recorder):
    """A second subscriber that never fails: what it is shown must not depend on whether the first
    one raised (registered after it, so a loop that stops at the first failure starves it)."""
    def _sub2(interp):
        rec.log.append(("sub2", rec.live_cfg(interp), interp.status, rec.now()))

    return _sub2


def make_emit_listener(rec: Recorder):
    def _l(event):
        rec.log.append(("emit", event.type))
        rec.fault_site("listener", "emit")

    return _l
