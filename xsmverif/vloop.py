"""Virtual-time asyncio event loop.

`time()` is a virtual clock that only advances when nothing is ready: the loop then jumps to the
deadline of the earliest scheduled handle.  1.5 virtual seconds of timers run in about a
millisecond, deterministically.  An optional `permute` callback lets a generator reorder the ready
queue (a legal asyncio schedule is any order of *independent* ready callbacks; we only permute at
loop-iteration boundaries, which is what a different call_soon order of independent producers
would give)."""
from __future__ import annotations

import asyncio
import heapq
import selectors
from typing import Callable, Optional


class LoopDeadlock(Exception):
    """The loop has nothing ready and nothing scheduled: whoever is awaited will never finish."""


class VirtualTimeLoop(asyncio.SelectorEventLoop):
    def __init__(self):
        super().__init__(selectors.DefaultSelector())
        self._vt = 0.0
        self.iterations = 0
        self.max_iterations: Optional[int] = None

    def time(self) -> float:
        return self._vt

    def call_at(self, when, callback, *args, context=None):
        # On a real loop the clock moves between two call_later() calls, so timers asked for the same
        # delay one after the other fire in the order they were scheduled. Virtual time stands still
        # between them: identical deadlines would be ordered by heapq's (unstable) tie handling. A
        # sub-nanosecond increment per scheduled timer restores first-scheduled-first-fired.
        self._tie = getattr(self, "_tie", 0) + 1
        return super().call_at(when + self._tie * 1e-13, callback, *args, context=context)

    def _run_once(self):
        self.iterations += 1
        if self.max_iterations is not None and self.iterations > self.max_iterations:
            from .recorder import StepBudgetExceeded

            raise StepBudgetExceeded("virtual loop iteration budget exceeded")
        if not self._ready:
            while self._scheduled and self._scheduled[0]._cancelled:
                h = heapq.heappop(self._scheduled)
                h._scheduled = False
                self._timer_cancelled_count = max(0, self._timer_cancelled_count - 1)
            if self._scheduled:
                when = self._scheduled[0]._when
                if when > self._vt:
                    self._vt = when
            elif not self._stopping:
                raise LoopDeadlock("virtual loop: nothing ready and nothing scheduled")
        super()._run_once()


def run_virtual(coro_fn: Callable, *, max_iterations: Optional[int] = 2_000_000):
    """Runs `await coro_fn(loop)` on a fresh virtual loop and closes it."""
    loop = VirtualTimeLoop()
    loop.max_iterations = max_iterations
    try:
        asyncio.set_event_loop(loop)
        return loop.run_until_complete(coro_fn(loop))
    finally:
        try:
            pending = [t for t in asyncio.all_tasks(loop) if not t.done()]
            for t in pending:
                t.cancel()
            if pending:
                loop.max_iterations = None
                try:
                    loop.run_until_complete(asyncio.gather(*pending, return_exceptions=True))
                except BaseException:
                    pass
        finally:
            try:
                loop.close()
            except Exception:
                pass
            asyncio.set_event_loop(None)
