"""C20 — event descriptors: exact > partial > wildcard; internal events private; null forbids."""
from __future__ import annotations

import itertools
import logging
import multiprocessing as mp
import time
from typing import Dict, List, Optional, Tuple

from hypothesis import strategies as st

from ..refsel import INTERNAL_PREFIXES, matching_keys
from ..runner import CaseResult, case_fp

PROPERTY = "C20"
LEVEL = "exploration"
TECHNIQUE = "exhaustive enumeration (itertools.product over 16 processes) of a bounded descriptor space + Hypothesis layer for larger bounds, against a 15-line reference matcher"
LEVEL_TEXT = ("exhaustive within the bound: every key set of size <=3 on the leaf and <=1 on its parent over a 29-key universe "
              "(14 event types of 1-3 segments over {a,b}, their 6 partial descriptors, '*', 5 internal event types and 3 "
              "internal partials), every guard/null mode per key, every one of 22 event types, the parent level on a state or on the machine root; plus generated search "
              "beyond the bound (segments {a,b,ab}, ancestor chains of depth 3, up to 4 keys per level)")
RULE = (
    "Exhaustive part: machine m > p > l (leaf) where l declares a key set K_l (|K_l|<=3) and p a key set K_p (|K_p|<=1) "
    "from a 29-key universe; each key is independently guarded-true / guarded-false / null; all 22 event types (14 user "
    "types over segments {a,b} with 1-3 segments + done.state.x, done.invoke.x, error.platform.x, after.1.x, xstate.x) are "
    "sent and the marker that fired is compared with the reference matcher (exact, then partials by decreasing prefix "
    "length where p.* matches p and p.<more>, then '*'; internal events only by their exact key; first candidate whose "
    "guard is true wins; a null key stops the upward walk). quick = a fixed stride of the enumeration, thorough = all "
    "of it. (plus the near-miss types ab, ab.a, a.ba, which no a.* / a.b.* may match; the parent level is declared on a state below the root or - every other sampled machine, and a strided second pass of the complete run - on the machine root itself). Hypothesis part: segments {a,b,ab}, chains l<p<g with the outermost level optionally on the root, <=4 keys per level, on both engines. Non-trivial = "
    "(event, machine) pairs where >=2 keys of one level match the event, or a null/false-guard makes the decision "
    "pass to a less specific key or to the ancestor; distinct = distinct (keysets+modes, event)."
)
ASSUMPTIONS = [
    "internal-looking event types are delivered as plain events through send(); the matcher is keyed on the type string",
    "exhaustive part runs the sync engine (descriptor matching lives in the shared base class); the Hypothesis part runs both",
]

SEGS = ["a", "b"]
USER_TYPES = [".".join(p) for n in (1, 2, 3) for p in itertools.product(SEGS, repeat=n)]
INTERNAL_TYPES = ["done.state.x", "done.invoke.x", "error.platform.x", "after.1.x", "xstate.x"]
# event types that begin with the characters of a shorter type's segment without sharing the segment: `a.*` must not
# match `ab`, `a.b.*` must not match `a.ba`
NEAR_TYPES = ["ab", "ab.a", "a.ba"]
EVENT_TYPES = USER_TYPES + INTERNAL_TYPES + NEAR_TYPES
PARTIALS = [".".join(p) + ".*" for n in (1, 2) for p in itertools.product(SEGS, repeat=n)]
INTERNAL_PARTIALS = ["done.*", "done.state.*", "after.*"]
UNIVERSE = USER_TYPES + PARTIALS + ["*"] + INTERNAL_TYPES + INTERNAL_PARTIALS
MODES = ["T", "F", "N"]  # guarded-true, guarded-false, null

logging.disable(logging.CRITICAL)


def build(levels: List[List[Tuple[str, str]]], root_top: bool = False):
    """levels[0] = leaf [(key, mode)...], levels[1] = its parent, ...  -> (config, names).
    root_top: the outermost level is declared on the machine root itself instead of on a state below it."""
    node = None
    depth = len(levels)
    cfg = None
    top_on = None
    for i, lv in enumerate(levels):
        on = {}
        for key, mode in lv:
            if mode == "N":
                on[key] = None
            else:
                on[key] = {"actions": [f"k{i}:{key}"], "guard": "gT" if mode == "T" else "gF"}
        if root_top and i == len(levels) - 1 and node is not None:
            top_on = on
            break
        s = {"on": on} if on else {}
        if node is not None:
            s["initial"] = "c"
            s["states"] = {"c": node}
        node = s
    cfg = {"id": "m", "initial": "c", "states": {"c": node}}
    if top_on:
        cfg["on"] = top_on
    return cfg


def expected(levels: List[List[Tuple[str, str]]], ev: str) -> Optional[str]:
    for i, lv in enumerate(levels):
        keys = [k for k, _ in lv]
        modes = dict(lv)
        for k in matching_keys(keys, ev):
            if modes[k] == "N":
                return None
            if modes[k] == "T":
                return f"k{i}:{k}"
    return None


_LOG: List[str] = []


def _mark(i, c, e, a):
    _LOG.append(a.type)


def run_machine(levels, engine="sync", events=EVENT_TYPES, root_top=False):
    """-> list of (event, fired markers)."""
    from xstate_statemachine import Event, MachineLogic, SyncInterpreter, create_machine

    cfg = build(levels, root_top)
    names = {f"k{i}:{k}" for i, lv in enumerate(levels) for k, m in lv if m != "N"}
    logic = MachineLogic(actions={n: _mark for n in names}, guards={"gT": lambda c, e: True, "gF": lambda c, e: False})
    machine = create_machine(cfg, logic=logic)
    out = []
    if engine == "sync":
        it = SyncInterpreter(machine).start()
        for ev in events:
            del _LOG[:]
            it.send(Event(type=ev))
            out.append((ev, list(_LOG)))
        it.stop()
    else:
        import asyncio

        from xstate_statemachine import Interpreter

        from ..vloop import run_virtual

        async def main(loop):
            it = await Interpreter(machine).start()
            for ev in events:
                del _LOG[:]
                await it.send(Event(type=ev))
                await it._event_queue.join()
                out.append((ev, list(_LOG)))
            await it.stop()

        run_virtual(main)
    return out


def nontrivial(levels, ev) -> bool:
    for i, lv in enumerate(levels):
        keys = [k for k, _ in lv]
        modes = dict(lv)
        mk = matching_keys(keys, ev)
        if len(mk) >= 2:
            return True
        if mk and modes[mk[0]] in ("F", "N"):
            return True
        if mk:
            return False
    return False


# ------------------------------------------------------------------ exhaustive enumeration
def leaf_variants():
    for n in (0, 1, 2, 3):
        for ks in itertools.combinations(range(len(UNIVERSE)), n):
            for ms in itertools.product(MODES, repeat=n):
                yield tuple((UNIVERSE[k], m) for k, m in zip(ks, ms))


def parent_variants():
    yield ()
    for k in UNIVERSE:
        for m in MODES:
            yield ((k, m),)


def _enum_worker(args):
    shard, nshards, stride = args[:3]
    layout_pass = args[3] if len(args) > 3 else 0
    n = 0
    nt = 0
    viol = []
    samples = []
    parents = list(parent_variants())
    idx = -1
    for leaf in leaf_variants():
        for par in parents:
            idx += 1
            if idx % stride != 0:
                continue
            if (idx // stride) % nshards != shard:
                continue
            levels = [list(leaf), list(par)]
            # layout: the parent level sits on a state below the root, or on the machine root itself (every other
            # sampled machine of a strided run; the complete run adds a strided second pass in the root layout)
            root_top = bool(par) and ((idx // stride) % 2 == 1 if stride > 1 else layout_pass == 1)
            if stride == 1 and layout_pass == 1 and (not par or idx % 5 != 0):
                continue
            try:
                res = run_machine(levels, root_top=root_top)
            except Exception as e:  # noqa
                viol.append({"tag": f"sync|exception|{type(e).__name__}", "detail": {"msg": str(e)[:200]},
                             "case": {"levels": levels, "engine": "sync", "root_top": root_top}})
                continue
            for ev, fired in res:
                n += 1
                exp = expected(levels, ev)
                if nontrivial(levels, ev):
                    nt += 1
                    if len(samples) < 2 and exp is not None:
                        samples.append({"leaf_on": leaf, "parent_on": par, "event": ev, "fired": fired})
                if fired != ([exp] if exp else []):
                    if len(viol) < 20:
                        tag = _tag("sync", levels, ev, exp, fired)
                        viol.append({"tag": tag, "detail": {"event": ev, "expected": exp, "fired": fired},
                                     "case": {"levels": levels, "engine": "sync", "events": [ev], "root_top": root_top}})
    return n, nt, viol, samples


def _tag(engine, levels, ev, exp, fired):
    internal = ev.startswith(INTERNAL_PREFIXES)
    kind = "internal" if internal else "user"
    if fired and not exp:
        why = "fired-but-none-expected"
    elif exp and not fired:
        why = "nothing-fired"
    else:
        why = "wrong-winner"
    nulls = any(m == "N" for lv in levels for _, m in lv)
    return f"{engine}|{why}|{kind}{'|null' if nulls else ''}"


def extra_run(tier, seed, jobs):
    stride = 13 if tier == "quick" else 1
    t0 = time.time()
    ctx = mp.get_context("fork")
    with ctx.Pool(jobs) as pool:
        parts = pool.map(_enum_worker, [(i, jobs, stride, 0) for i in range(jobs)])
        if stride == 1:
            parts += pool.map(_enum_worker, [(i, jobs, stride, 1) for i in range(jobs)])
    n = sum(p[0] for p in parts)
    nt = sum(p[1] for p in parts)
    viol = [v for p in parts for v in p[2]]
    samples = [s for p in parts for s in p[3]][:3]
    total_machines = sum(1 for _ in leaf_variants()) * sum(1 for _ in parent_variants())
    return {
        "evaluations": n,
        "nontrivial_count": nt,
        "violations": viol,
        "samples": samples,
        "coverage": {
            "exhaustive": stride == 1,
            "enumeration": {"machines_total": total_machines, "stride": stride, "events_per_machine": len(EVENT_TYPES),
                            "event_machine_pairs_checked": n, "nontrivial_pairs": nt, "wall_s": round(time.time() - t0, 1)},
        },
    }


# ------------------------------------------------------------------ Hypothesis layer beyond the bound
SEGS3 = ["a", "b", "ab"]   # `ab` begins with the characters of `a` without being the segment `a`
TYPES3 = [".".join(p) for n in (1, 2, 3) for p in itertools.product(SEGS3, repeat=n)]
UNIVERSE3 = TYPES3 + [".".join(p) + ".*" for n in (1, 2) for p in itertools.product(SEGS3, repeat=n)] + ["*"] + INTERNAL_TYPES + INTERNAL_PARTIALS + ["error.*", "xstate.*"]


def plan(tier):
    return [{"name": "main", "examples": 2000 if tier == "quick" else 60000}]


def strategy(tier, campaign):
    level = st.lists(st.tuples(st.sampled_from(UNIVERSE3), st.sampled_from(MODES)), max_size=4, unique_by=lambda x: x[0])
    return st.fixed_dictionaries({
        "levels": st.lists(level, min_size=1, max_size=3),
        "events": st.lists(st.sampled_from(TYPES3 + INTERNAL_TYPES), min_size=1, max_size=8),
        "engine": st.sampled_from(["sync", "async"]),
        "root_top": st.booleans(),
    })


def check_case(case) -> CaseResult:
    res = CaseResult()
    levels = [[tuple(x) for x in lv] for lv in case["levels"]]
    events = case.get("events") or EVENT_TYPES
    engine = case.get("engine", "sync")
    try:
        out = run_machine(levels, engine, events, root_top=bool(case.get("root_top")))
    except Exception as e:  # noqa
        res.violate(f"{engine}|exception|{type(e).__name__}", {"msg": str(e)[:300]})
        return res
    keys = []
    for ev, fired in out:
        exp = expected(levels, ev)
        if nontrivial(levels, ev):
            keys.append(case_fp([levels, ev]))
        if fired != ([exp] if exp else []):
            res.violate(_tag(engine, levels, ev, exp, fired), {"event": ev, "expected": exp, "fired": fired, "levels": levels})
    res.nontrivial = bool(keys)
    res.nontrivial_keys = keys
    res.extra_evals = len(out) - 1
    res.sample = {"levels": levels, "events": events, "engine": engine, "root_top": bool(case.get("root_top")), "fired": out[:4]}
    return res
