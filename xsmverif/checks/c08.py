"""C08 — delayed (after) transitions fire when due and never after the state was left."""
from __future__ import annotations

from hypothesis import strategies as st

from .. import drivers, findings
from ..gen import D
from ..render import Index, finalize
from ..runner import CaseResult, case_fp
from ..tree import Tree

PROPERTY = "C08"
LEVEL = "exploration"
TECHNIQUE = "property-based testing of generated timer scenarios under harness-owned virtual time (virtual asyncio loop / deterministic thread scheduler), judged by timing laws over the virtual-time-stamped log"
RULE = (
    "Generated timed machines: state `a` (atomic or compound, optionally nested) with 1-3 `after` entries whose delays are "
    "numeric, numeric strings, named constants or named callables of the context, with true/false guards, internal or "
    "external targets incl. self re-entry; sibling states with their own timers; events GO (leave), BACK (return), RE "
    "(re-enter), IN (move inside), SET (change the context value a computed delay reads), SLOW (an action that sleeps in "
    "virtual time), PING. Histories place sends, batches (events queued behind a slow action), and stop() on a grid "
    "around every deadline d: d-1, d, d+1, d/2, 2d. Both engines run in virtual time. Oracle over the time-stamped log: "
    "a firing belongs to the activation current when its expiry is dequeued and elapsed >= delay (delay resolved from the "
    "context at entry); <=1 firing per activation per timer; a state that outlives a deadline (guard true) must take the "
    "transition at t_in+delay exactly, or at the end of the busy period if a slow action overlaps the deadline; a "
    "false-guarded timer never fires; nothing fires after exit or stop(); no timer task/thread survives stop(). "
    "Campaign `rollback`: `a` additionally has a child a3 (entered by TRAP) whose exit list names an unimplemented action, "
    "so every transition leaving a3 aborts in its exit phase and is rolled back with `a` in the exit set; the rollback "
    "re-arms what was cancelled (C07), which gives the states on that branch one more admissible deadline origin: a "
    "firing must sit on t0+delay for the entry time or a rollback time t0, a second firing in one activation needs a "
    "rollback after the first, and a state that outlives its last admissible deadline must have fired at least once. "
    'A delay key may list several candidates (guarded ones ahead of the drawn one): it is still one delayed transition - first enabled candidate, at most once per activation per key. '
    "Non-trivial = an external event or slow action overlaps a deadline, or a state is re-entered before an earlier "
    "activation's deadline; distinct = distinct (machine, history)."
)
ASSUMPTIONS = [
    "liveness ('no later than the delay') is decided in virtual time only: the engine schedules the expiry for exactly "
    "t_in+delay and processes it as soon as it is idle; OS wake-up latency of real threads is outside the check",
    "busy period = union of slow-action intervals (all other processing takes zero virtual time)",
]
EPS = 1e-6


def plan(tier):
    q = tier == "quick"
    out = [{"name": "main", "examples": 6000 if q else 200000}, {"name": "rollback", "examples": 2000 if q else 60000}]
    for f in findings.open_for(PROPERTY):
        if f.exclude_profile:
            out.append({"name": "probe:" + f.id, "examples": 400 if q else 4000, "shards": 4})
    return out


DELAYS = [20, 50, 100]


@st.composite
def _case(draw, allow_queued_behind_slow=True, trap=False):
    d = D(draw)
    delays_logic = {"DC": d.pick(DELAYS), "DF": {"k": "ctx", "key": "d", "base": d.pick([10, 30])}}
    n_after = d.int(1, 3)
    afters = []
    used = set()
    for i in range(n_after):
        kind = d.pick(["num", "num", "str", "const", "fn"])
        if kind == "num":
            key = d.pick(DELAYS)
        elif kind == "str":
            key = str(d.pick(DELAYS))
        elif kind == "const":
            key = "DC"
        else:
            key = "DF"
        if str(key) in used:
            continue
        used.add(str(key))
        tgt = d.pick([["b"], ["c"], ["x"], ["a"], None, ["a"]])
        if trap:
            tgt = None          # see `trap` below: every transition that leaves a3 aborts
        t = {"target": tgt, "actions": []}
        if tgt == ["a"] and d.chance(60):
            t["reenter"] = True
        if d.chance(20):
            t["guard"] = {"k": "const", "val": False}
        elif d.chance(20):
            t["guard"] = {"k": "const", "val": True}
        cands = [t]
        if not trap and d.chance(35):
            # a candidate list under one delay key: 1-2 guarded candidates ahead of the one drawn above; the
            # delay is still ONE delayed transition (first enabled candidate wins, once per activation)
            for _ in range(d.int(1, 2)):
                tg = d.pick([["b"], ["c"], ["x"], None, None])
                cands.insert(0, {"target": tg, "actions": [], "guard": {"k": "const", "val": d.chance(25)}})
        afters.append([key, cands])
    a = {"key": "a", "kind": "atomic", "after": afters, "on": [
        ["GO", [{"target": ["x"], "actions": []}]],
        ["RE", [{"target": ["a"], "reenter": True, "actions": []}]],
        ["SLOW", [{"target": None, "actions": [{"k": "user", "name": "slow"}]}]],
        ["SET", [{"target": None, "actions": [{"k": "assign", "ops": [["copy", "d", "d"]]}]}]],
        ["PING", [{"target": None, "actions": []}]],
    ]}
    if trap or d.chance(40):
        a["kind"] = "compound"
        a["initial"] = "a1"
        a1 = {"key": "a1", "kind": "atomic", "on": [["IN", [{"target": ["a", "a2"], "actions": []}]]]}
        a2 = {"key": "a2", "kind": "atomic", "on": [["IN", [{"target": ["a", "a1"], "actions": []}]]]}
        if d.chance(50):
            a1["after"] = [[d.pick(DELAYS), [{"target": ["a", "a2"], "actions": []}]]]
        a["children"] = [a1, a2]
        if trap:
            # a3: entered by TRAP; its exit list names an action that has no implementation, so from
            # then on every transition that would leave a3 (GO, RE, IN, TRAP) aborts in the exit
            # phase and is rolled back - with `a` in the exit set but, depending on the engine, its
            # timers cancelled (sync: all exiting states up front) or not yet (async: per state).
            a3 = {"key": "a3", "kind": "atomic", "exit": [{"k": "user", "name": "u_missing"}],
                  "on": [["IN", [{"target": ["a", "a1"], "actions": []}]]]}
            if d.chance(40):
                a3["after"] = [[d.pick(DELAYS), [{"target": None, "actions": []}]]]
            a["children"].append(a3)
            a["on"].append(["TRAP", [{"target": ["a", "a3"], "actions": []}]])
    x = {"key": "x", "kind": "atomic", "on": [["BACK", [{"target": ["a"], "actions": []}]], ["SLOW", [{"target": None, "actions": [{"k": "user", "name": "slow"}]}]],
                                            ["SET", [{"target": None, "actions": [{"k": "assign", "ops": [["copy", "d", "d"]]}]}]]]}
    if d.chance(30):
        x["after"] = [[d.pick(DELAYS), [{"target": ["a"], "actions": []}]]]
    b = {"key": "b", "kind": "atomic", "on": [["BACK", [{"target": ["a"], "actions": []}]]]}
    c = {"key": "c", "kind": "atomic", "on": [["BACK", [{"target": ["a"], "actions": []}]]]}
    if d.chance(30):
        b["after"] = [[d.pick(DELAYS), [{"target": ["a"], "actions": []}]]]
    root = {"key": "m", "kind": "compound", "initial": "a", "children": [a, x, b, c]}
    slow_ms = d.pick([5, 30, 60, 120])
    spec = {"id": "m", "root": root, "context": {"n": 0, "d": 0}, "maxIterations": 50, "tables": {}, "services": {},
            "delays": delays_logic, "impls": {"slow": {"k": "slow", "ms": slow_ms}, "u_missing": {"k": "missing"}}}
    finalize(spec)
    # ---- history on a grid around the deadlines
    grid = sorted({1, 5} | {v for dl in DELAYS for v in (dl - 1, dl, dl + 1, dl // 2, 2 * dl)})
    evs = ["GO", "BACK", "RE", "SLOW", "PING", "IN", "SET"] + (["TRAP", "TRAP", "GO"] if trap else [])
    hist = []
    seq = 0
    for _ in range(d.int(2, 12)):
        r = d.int(0, 99)
        if r < 40:
            hist.append(["advance", d.pick(grid)])
        elif r < 80:
            ev = d.pick(evs)
            if ev == "SET":
                hist.append(["sendp", "SET", seq, {"d": d.pick([0, 2, 5, 9])}])
            else:
                hist.append(["send", ev, seq])
            seq += 1
        elif r < 95 and allow_queued_behind_slow:
            k = d.int(2, 3)
            batch = [["SLOW", seq]] + [[d.pick(["GO", "BACK", "RE", "PING"]), seq + 1 + j] for j in range(k)]
            hist.append(["batch", batch])
            seq += k + 1
        elif r < 95:
            hist.append(["send", d.pick(evs[:5]), seq])
            seq += 1
        else:
            hist.append(["stop"])
            hist.append(["advance", 250])
            break
    hist.append(["advance", d.pick([60, 250])])
    return {"spec": spec, "history": hist, "engine": draw(st.sampled_from(["sync", "async"]))}


def strategy(tier, campaign):
    opens = [f for f in findings.open_for(PROPERTY) if f.exclude_profile]
    excl_queue = any(f.exclude_profile.get("queued_behind_slow") is False for f in opens)
    if campaign == "main":
        return _case(allow_queued_behind_slow=not excl_queue)
    if campaign == "rollback":
        return _case(allow_queued_behind_slow=False, trap=True)
    return _case(allow_queued_behind_slow=True)


def _delay_ms(spec, key, d_at_entry):
    if isinstance(key, int):
        return float(key)
    try:
        return float(int(key))
    except (TypeError, ValueError):
        pass
    dv = spec["delays"][key]
    if isinstance(dv, dict):
        return float(dv.get("base", 0) + d_at_entry)
    return float(dv)


def check_case(case) -> CaseResult:
    res = CaseResult()
    spec, history, engine = case["spec"], case["history"], case["engine"]
    tree = Tree(spec)
    idx = Index(spec)
    run = drivers.ENGINES[engine](spec, history, {"budget": 8000})
    res.sample = {"engine": engine, "history": history, "after": {sid: [str(t.key) for t in tis if t.family == "after"] for sid, tis in idx.by_state.items() if any(t.family == "after" for t in tis)}}
    if run.create_exc or run.aborted:
        res.inconclusive = run.aborted or ("create:" + str(run.create_exc))
        return res
    log = [e for o in run.steps for e in o.log]
    # d values sent, in order
    dvals = [op[3]["d"] for op in history if op[0] == "sendp"]
    dmap = {op[2]: op[3]["d"] for op in history if op[0] == "sendp"}
    set_tids = {ti.tid for ti in idx.trans.values() if ti.family == "on" and ti.key == "SET"}
    timers = {sid: [t for t in tis if t.family == "after"] for sid, tis in idx.by_state.items()}
    # ---- pass 1: slow intervals, stop time
    slows = []
    begin = None
    stop_time = None
    for o in run.steps:
        if o.op[0] == "stop" and stop_time is None:
            stop_time = o.vt
    for e in log:
        if e[0] == "act" and e[1] == "slow:begin":
            begin = e[5]
        elif e[0] == "act" and e[1] == "slow:end" and begin is not None:
            slows.append((begin, e[5]))
            begin = None
    if begin is not None:
        slows.append((begin, float("inf")))
    slows.sort()
    merged = []
    for s, t in slows:
        if merged and s <= merged[-1][1] + EPS:
            merged[-1] = (merged[-1][0], max(merged[-1][1], t))
        else:
            merged.append((s, t))

    def busy_end(t):
        for s, e_ in merged:
            if s - EPS <= t <= e_ + EPS:
                return e_
        return t

    # ---- pass 2: activations, firings
    acts_open = {}     # state -> activation dict
    history_acts = []  # closed + open activations
    cur_d = 0
    nset = 0
    cur_recv = None
    nontrivial = False
    t_end = run.steps[-1].vt if run.steps else 0.0
    pend_exit = []   # activations closed since the last completed transition
    rollbacks = 0

    def reconcile():
        # exit markers that were not followed by a completed transition (no on_transition hook
        # before the next event was dequeued) belong to a transition that aborted and was rolled
        # back: those states are active again. The engine re-arms what it had cancelled (C07), so
        # every state on that branch gets one more admissible deadline origin ("epoch").
        nonlocal rollbacks, nontrivial
        if not pend_exit:
            return
        rollbacks += 1
        t_abort = max(a["t_out"] for a in pend_exit)
        for a in pend_exit:
            a["t_out"] = None
            acts_open[a["state"]] = a
        for a in list(acts_open.values()):
            if any(r["state"] == a["state"] or r["state"].startswith(a["state"] + ".") for r in pend_exit):
                a.setdefault("epochs", []).append((t_abort, cur_d))   # a re-armed computed delay is resolved anew
                if timers.get(a["state"]):
                    nontrivial = True
        pend_exit.clear()

    for e in log + [("recv", "<end>", None, t_end, None)]:
        if e[0] == "recv":
            reconcile()
            if e[1] == "<end>":
                break
            cur_recv = e
            if e[1].startswith("after."):
                _, delay_key, sid = e[1].split(".", 2)
                cur_recv = ("after", delay_key, sid, e[3], acts_open.get(sid))
        elif e[0] == "act":
            name, vt = e[1], e[5]
            if name in set_tids:
                # the value this SET carries (by payload seq: an unhandled SET runs no marker, so
                # counting markers would pair the wrong payload with the next handled one)
                cur_d = dmap.get(e[3], cur_d)
            if name in idx.entry_marker:
                s = idx.entry_marker[name]
                a = {"state": s, "t_in": vt, "t_out": None, "d": cur_d, "fired": {}}
                # re-entered before an earlier activation's deadline?
                for old in history_acts[::-1]:
                    if old["state"] == s and old["t_out"] is not None:
                        for t in timers.get(s, []):
                            if old["t_out"] - old["t_in"] < _delay_ms(spec, t.key, old["d"]) / 1000.0:
                                nontrivial = True
                        break
                acts_open[s] = a
                history_acts.append(a)
            elif name in idx.exit_marker:
                s = idx.exit_marker[name]
                if s in acts_open:
                    acts_open[s]["t_out"] = vt
                    pend_exit.append(acts_open[s])
                    del acts_open[s]
        elif e[0] == "trans":
            pend_exit.clear()
            ti = idx.trans.get(e[1]) if e[1] else None
            if ti is None or ti.family != "after":
                continue
            t = e[5]
            sid = ti.source
            if stop_time is not None and t > stop_time + EPS:
                res.violate(f"{engine}|after-fired-after-stop", {"state": sid, "t": t, "stop": stop_time})
                continue
            a = cur_recv[4] if (cur_recv and cur_recv[0] == "after" and cur_recv[2] == sid) else acts_open.get(sid)
            live_now = None
            for h in history_acts[::-1]:
                if h["state"] == sid:
                    live_now = h
                    break
            if a is None:
                res.violate(f"{engine}|after-fired-while-state-inactive", {"state": sid, "t": t})
                continue
            D_ = _delay_ms(spec, ti.key, a["d"]) / 1000.0
            recv_t = cur_recv[3] if cur_recv and cur_recv[0] == "after" else t
            elapsed = recv_t - a["t_in"]
            rearmed_ok = any(e2 + _delay_ms(spec, ti.key, d2) / 1000.0 - EPS <= recv_t for e2, d2 in a.get("epochs", []))
            if elapsed < D_ - EPS and not rearmed_ok:
                # which shape? expiry of an earlier activation dequeued after leave+re-enter
                prior = [h for h in history_acts if h["state"] == sid and h is not a and h["t_out"] is not None
                         and abs((h["t_in"] + _delay_ms(spec, ti.key, h["d"]) / 1000.0) - recv_t) < 1.0]
                shape = "stale-expiry-of-earlier-activation" if any(h["t_in"] < a["t_in"] for h in history_acts if h["state"] == sid and h is not a) else "early"
                res.violate(f"{engine}|after-fired-before-delay-elapsed|{shape}",
                            {"state": sid, "timer": str(ti.key), "delay_s": D_, "t_in": a["t_in"], "fired_at": recv_t, "elapsed": round(elapsed, 6)})
                continue
            k = str(ti.key)   # one delayed transition per delay key, however many candidates it lists
            earlier = [t2 for t2 in timers.get(sid, []) if str(t2.key) == str(ti.key) and t2.index < ti.index]
            if any(t2.guard is None or (t2.guard.get("k") == "const" and t2.guard["val"]) for t2 in earlier):
                res.violate(f"{engine}|after-candidate-behind-an-enabled-one-fired", {"state": sid, "timer": str(ti.key), "index": ti.index})
            epochs = [a["t_in"] + D_ - D_] + [e2 + _delay_ms(spec, ti.key, d2) / 1000.0 - D_ for e2, d2 in a.get("epochs", [])]
            # (each origin is shifted so that origin + D_ is that origin's own deadline)
            prev = a["fired"].get(k, [])
            a["fired"][k] = prev + [recv_t]
            if prev:
                # a second firing in one activation is admissible only for a timer re-armed by a
                # rollback that happened after the previous firing
                ok2 = any(t2 >= prev[-1] - EPS and e2 + D_ - EPS <= recv_t <= busy_end(e2 + D_) + EPS
                          for e2, (t2, _d2) in zip(epochs[1:], a.get("epochs", [])))
                if not ok2:
                    res.violate(f"{engine}|after-fired-twice-in-one-activation" + ("|after-rollback" if len(epochs) > 1 else ""),
                                {"state": sid, "timer": str(ti.key), "fired_at": a["fired"][k], "epochs": epochs})
            # exact firing time when idle
            due = max(epochs) + D_
            limit = busy_end(due)
            if not any(e2 + D_ - EPS <= recv_t <= busy_end(e2 + D_) + EPS for e2 in epochs):
                res.violate(f"{engine}|after-fired-late" if recv_t > limit + EPS else f"{engine}|after-fired-at-no-armed-deadline",
                            {"state": sid, "timer": str(ti.key), "due": due, "busy_until": limit, "fired_at": recv_t, "epochs": epochs})
            if limit > due + EPS:
                nontrivial = True
            if ti.guard is not None and ti.guard.get("k") == "const" and not ti.guard["val"]:
                res.violate(f"{engine}|false-guarded-after-fired", {"state": sid, "timer": str(ti.key)})
    # ---- liveness: a state that outlived a deadline must have fired
    horizon = stop_time if stop_time is not None else t_end
    for a in history_acts:
        seen_keys = set()
        for t in timers.get(a["state"], []):
            if t.guard is not None and t.guard.get("k") == "const" and not t.guard["val"]:
                continue
            if str(t.key) in seen_keys:
                continue    # a later candidate of a delay key that already has an enabled one
            seen_keys.add(str(t.key))
            D_ = _delay_ms(spec, t.key, a["d"]) / 1000.0
            due = max([a["t_in"] + D_] + [e2 + _delay_ms(spec, t.key, d2) / 1000.0 for e2, d2 in a.get("epochs", [])])
            lim = busy_end(due)
            end = a["t_out"] if a["t_out"] is not None else horizon
            if run.steps[-1].status not in ("running", "stopped") and a["t_out"] is None:
                continue
            k = str(t.key)
            if end > lim + EPS and not a["fired"].get(k):
                # was the machine still running at `lim`?
                if stop_time is not None and lim >= stop_time - EPS:
                    continue
                res.violate(f"{engine}|after-not-fired-when-due" + ("|after-rollback" if a.get("epochs") else ""), {"state": a["state"], "timer": str(t.key), "t_in": a["t_in"], "due": due,
                                                                   "busy_until": lim, "activation_end": end})
    # ---- external events overlapping deadlines make the case non-trivial
    for a in history_acts:
        for t in timers.get(a["state"], []):
            due = a["t_in"] + _delay_ms(spec, t.key, a["d"]) / 1000.0
            for e in log:
                if e[0] == "recv" and e[2] is not None and abs(e[3] - due) < 0.0015:
                    nontrivial = True
    # ---- a state that is not active owns no pending timer (at every quiescent point)
    for k, o in enumerate(run.steps):
        owners = [x for x in (o.extra.get("task_owners") or []) if x in tree.nodes and x not in o.cfg]
        if owners and o.status == "running":
            res.violate(f"{engine}|timer-pending-for-inactive-state", {"step": k, "op": o.op, "owners": owners[:3], "cfg": sorted(o.cfg)})
            break
    # ---- nothing survives stop()
    if engine == "async" and run.census_after_stop:
        res.violate("async|tasks-alive-after-stop", {"tasks": run.census_after_stop[:5]})
    if engine == "sync" and run.sched_live:
        res.violate("sync|threads-alive-after-stop", {"threads": [n.split("::")[0] for n in run.sched_live][:5]})
    if run.thread_excs:
        res.violate(f"{engine}|exception-in-timer-thread", {"excs": run.thread_excs[:3]})
    res.nontrivial = nontrivial
    if rollbacks:
        res.classes.append("rolled-back-transition")
    seen = set()
    uniq = []
    for t, d_ in res.violations:
        if t not in seen:
            seen.add(t)
            uniq.append((t, d_))
    res.violations = uniq
    return res
