"""C11 — history states restore the last active sub-configuration."""
from __future__ import annotations

import re

from hypothesis import strategies as st

from .. import drivers, findings, gen
from ..gen import D
from ..render import Index, finalize
from ..runner import CaseResult
from ..tree import Tree

PROPERTY = "C11"
LEVEL = "exploration"
RULE = (
    "Machines are generated around a scenario skeleton: a parent P (compound or parallel, depth 1-3) with a history child "
    "(shallow/deep, with/without default target) inside a random surrounding tree, random inner transitions on events A-D, "
    "a LEAVE transition from P to an outside state O (lca(O,P) compound so that P becomes inactive) and RESUME transitions "
    "to P.h from O and from the root; histories interleave inner moves / LEAVE / RESUME (never visited, visited once, "
    "visited repeatedly) and optionally a snapshot->restore into a fresh interpreter before the RESUME. Oracle (history "
    "tracker over the Recorder log): whenever P's exit marker runs, remember the descendants of P active before that "
    "transition; a transition targeting P.h whose source is outside P while P is inactive must leave inside P exactly: "
    "deep -> the remembered states; shallow -> the remembered children of P plus their default entry; never exited -> the "
    "history default target entered normally, else P's default entry; every expected state entered exactly once in that "
    "transition and no other state of P entered. Non-trivial = a judged history transition whose remembered leaf differs "
    "from P's default leaf, or P parallel, or deep history below depth>=2; distinct = distinct (spec, history) hash. "
    "Campaign `shaped`: P is a parallel state (or a compound wrapping one) whose regions own atomic, final and nested "
    "compound children (left in a non-initial grandchild), with a snapshot->restore before RESUME half of the time."
)
ASSUMPTIONS = [
    "domain as in the property's quantifier: source outside P and P inactive when the transition is taken; other history "
    "targets are executed but not judged here (C01 judges their legality)",
    "the expected configuration is compared with the to_states of the on_transition hook of the history transition itself",
]
INIT = "___xstate_statemachine_init___"
BASE = dict(after=False, invoke=False, raise_=False, guards="none", always=False, ondone=True, nested_builtins=False,
            p_handler=22, max_iterations=30, final_under_root=False)
BASE["raise"] = False
del BASE["raise_"]


def _profiles():
    return findings.main_and_probe_profiles(PROPERTY, BASE)


def plan(tier):
    main, probes = _profiles()
    out = [{"name": "main", "examples": 6000 if tier == "quick" else 100000}, {"name": "shaped", "examples": 3000 if tier == "quick" else 40000}]
    for name in probes:
        out.append({"name": name, "examples": 320 if tier == "quick" else 3200, "shards": 4})
    return out


def _states(s, path=()):
    yield path, s
    for c in s.get("children", []):
        yield from _states(c, path + (c["key"],))


def _get(spec, path):
    s = spec["root"]
    for k in path:
        s = next(c for c in s["children"] if c["key"] == k)
    return s


@st.composite
def scenario(draw, prof):
    spec = draw(gen.machine_specs(prof))
    d = D(draw)
    tree = Tree(spec)
    # candidates for P: non-root compound/parallel states
    cands = [n.id for n in tree.nodes.values() if n.kind in ("compound", "parallel") and n.parent is not None]
    with_h = [c for c in cands if any(tree[x].kind == "history" for x in tree[c].children)]
    outside_ok = {}
    for c in cands:
        outs = [o for o in tree.nodes if tree[o].kind not in ("history",) and not tree.is_desc(o, c) and not tree.is_desc(c, o)
                and tree[tree.lca(o, c)].kind == "compound"]
        if outs:
            outside_ok[c] = outs
    pool = [c for c in with_h if c in outside_ok] or [c for c in cands if c in outside_ok]
    if not pool:
        return {"spec": spec, "history": [["send", "A", 0]], "P": None}
    P = d.pick(sorted(pool))
    pspec = _get(spec, P.split(".")[1:])
    hs = [c for c in pspec["children"] if c["kind"] == "history"]
    if not hs:
        h = {"key": "h", "kind": "history", "hist": "deep" if d.chance(50) else "shallow"}
        if d.chance(35):
            ds = [x for x in tree.descendants(P) if tree[x].kind != "history"]
            h["htarget"] = d.pick(sorted(ds)).split(".")[1:]
        pspec["children"].append(h)
        hs = [h]
    hnode = d.pick(hs)
    hpath = P.split(".")[1:] + [hnode["key"]]
    O = d.pick(sorted(outside_ok[P]))
    ospec = _get(spec, O.split(".")[1:])
    pspec.setdefault("on", []).append(["LEAVE", [{"target": O.split(".")[1:], "actions": []}]])
    if ospec["kind"] != "final":
        ospec.setdefault("on", []).append(["RESUME", [{"target": hpath, "actions": []}]])
    spec["root"].setdefault("on", []).append(["RESUME2", [{"target": hpath, "actions": []}]])
    # a way into P from outside that is not history (so "visit" can happen when P is not initial)
    spec["root"].setdefault("on", []).append(["ENTER", [{"target": P.split(".")[1:], "actions": []}]])
    finalize(spec)
    inner = ["A", "B", "C", "D"]
    hist = []
    seq = [0]

    def send(t):
        hist.append(["send", t, seq[0]])
        seq[0] += 1

    if d.chance(60):
        send("ENTER")
    for _ in range(d.int(1, 3)):
        for _ in range(d.int(0, 3)):
            send(d.pick(inner))
        if d.chance(85):
            send("LEAVE")
        if d.chance(25):
            send(d.pick(inner))
        if d.chance(30):
            hist.append(["restore"])
        send("RESUME" if d.chance(65) else "RESUME2")
        if d.chance(20):
            send(d.pick(inner + ["LEAVE", "RESUME2"]))
    return {"spec": spec, "history": hist, "P": P}


@st.composite
def shaped_scenario(draw):
    """Hand-shaped family: P is a parallel state (or a compound wrapping one) whose regions own
    atomic, final and nested-compound children, so that the remembered configuration regularly
    holds a final leaf next to an atomic one, and a compound child left in a non-initial
    grandchild; a snapshot->restore sits before the RESUME half of the time."""
    d = D(draw)

    def region(key, i):
        kids = [{"key": "s0", "kind": "atomic"}, {"key": "s1", "kind": "atomic"}]
        on0 = [["A" if i == 0 else "B", [{"target": ["@", "s1"], "actions": []}]]]
        has_final = d.chance(60)
        has_nested = d.chance(60)
        if has_final:
            kids.append({"key": "f", "kind": "final"})
            on0.append(["C" if i == 0 else "D", [{"target": ["@", "f"], "actions": []}]])
        if has_nested:
            kids.append({"key": "c", "kind": "compound", "initial": "c0", "children": [
                {"key": "c0", "kind": "atomic", "on": [["A", [{"target": ["@", "c", "c1"], "actions": []}]]]},
                {"key": "c1", "kind": "atomic"}]})
            on0.append(["D" if i == 0 else "C", [{"target": ["@", "c"] + (["c1"] if d.chance(50) else []), "actions": []}]])
        r = {"key": key, "kind": "compound", "initial": "s0", "children": kids, "on": on0}
        if d.chance(30):
            r["children"].append({"key": "rh", "kind": "history", "hist": d.pick(["shallow", "deep"])})
        return r

    nreg = d.int(2, 3)
    wrap = d.chance(40)
    regs = [region(f"r{i}", i) for i in range(nreg)]
    par = {"key": "W" if wrap else "P", "kind": "parallel", "children": regs}
    ppath = ["P", "W"] if wrap else ["P"]
    for r in regs:
        rp = ppath + [r["key"]]
        for ev, ts in r["on"]:
            for t in ts:
                t["target"] = rp + t["target"][1:]
        for c in r["children"]:
            for ev, ts in c.get("on", []):
                for t in ts:
                    t["target"] = rp + t["target"][1:]
            for g in c.get("children", []):
                for ev, ts in g.get("on", []):
                    for t in ts:
                        t["target"] = rp + t["target"][1:]
    if wrap:
        P = {"key": "P", "kind": "compound", "initial": "W", "children": [par, {"key": "alt", "kind": "atomic"}]}
    else:
        P = par
    h = {"key": "h", "kind": "history", "hist": d.pick(["deep", "deep", "shallow"])}
    if d.chance(40):
        # a default target anywhere below P: a non-initial leaf, or the non-initial grandchild of a nested compound
        opts = [[r["key"], "s1"] for r in regs]
        opts += [[r["key"], "c", "c1"] for r in regs if any(c.get("key") == "c" for c in r["children"])]
        h["htarget"] = (["P", "W"] if wrap else ["P"]) + d.pick(opts)
    P["children"].append(h)
    P["on"] = [["LEAVE", [{"target": ["O"], "actions": []}]]]
    O = {"key": "O", "kind": "atomic", "on": [["RESUME", [{"target": ["P", "h"], "actions": []}]]]}
    root = {"key": "m", "kind": "compound", "initial": d.pick(["P", "O"]), "children": [P, O],
            "on": [["RESUME2", [{"target": ["P", "h"], "actions": []}]], ["ENTER", [{"target": ["P"], "actions": []}]]]}
    spec = {"id": "m", "root": root, "context": {"n": 0}, "maxIterations": 30, "tables": {}, "services": {}}
    finalize(spec)
    inner = ["A", "B", "C", "D"]
    hist = []
    seq = [0]

    def send(t):
        hist.append(["send", t, seq[0]])
        seq[0] += 1

    never = root["initial"] == "O" and d.chance(45)
    if never:
        # P has never been active: the history state's default target (or P's normal entry) applies
        if d.chance(30):
            hist.append(["restore"])
        send("RESUME" if d.chance(65) else "RESUME2")
    elif root["initial"] == "O" or d.chance(30):
        send("ENTER")
    for _ in range(d.int(1, 3)):
        for _ in range(d.int(1, 5)):
            send(d.pick(inner))
        send("LEAVE")
        if d.chance(50):
            hist.append(["restore"])
        send("RESUME" if d.chance(65) else "RESUME2")
    return {"spec": spec, "history": hist, "P": "m.P"}


def strategy(tier, campaign):
    if campaign == "shaped":
        return shaped_scenario()
    main, probes = _profiles()
    prof = gen.profile(**(main if campaign == "main" else probes[campaign]))
    return scenario(prof)


def _enter_normally(tree: Tree, P: str, T: str):
    """States inside P active after entering descendant T of P 'normally' from outside P."""
    out = set()
    path = [T] + [a for a in tree.ancestors(T) if tree.is_desc(a, P)]
    out |= set(path)
    out |= tree.default_entry(T)
    for a in path:
        if tree[a].kind == "parallel":
            for r in tree.real_children(a):
                if r not in path and not tree.is_desc(T, r):
                    out |= tree.default_entry(r)
    return out


def _expected(tree: Tree, hid: str, remembered):
    P = tree[hid].parent
    if remembered is None:
        if tree[hid].htarget is not None:
            return _enter_normally(tree, P, tree[hid].htarget), "default-target"
        return tree.default_entry(P), "parent-default"
    if tree[hid].hist == "deep":
        return {P} | set(remembered), "deep"
    out = {P}
    for c in tree.real_children(P):
        if c in remembered:
            out |= tree.default_entry(c)
    return out, "shallow"


def _check_run(engine, case, tree: Tree, idx: Index, res: CaseResult, nt: list):
    spec, history = case["spec"], case["history"]
    run = drivers.ENGINES[engine](spec, history)
    if run.create_exc:
        res.classes.append(f"{engine}:create-exc:{run.create_exc}")
        return
    if run.aborted:
        res.inconclusive = run.aborted
        return
    hist_parents = {n.parent for n in tree.nodes.values() if n.kind == "history"}
    remembered = {}  # P -> frozenset of descendants active at last exit
    active = set()
    seg_start = set()
    for o in run.steps:
        if o.exc:
            res.inconclusive = "exception:" + o.exc
            return
        if o.op[0] == "restore":
            # the new interpreter continues from the snapshot: tracker state carries over unchanged
            if frozenset(active) != o.cfg:
                res.violate(f"{engine}|restore-changed-configuration", {"before": sorted(active), "after": sorted(o.cfg)})
                active = set(o.cfg)
            seg_start = set(active)
            continue
        buf = []
        exited_in_seg = set()
        for e in o.log:
            if e[0] == "recv":
                seg_start = set(active)
                buf = []
                exited_in_seg = set()
            elif e[0] == "act":
                name = e[1]
                if name in idx.exit_marker:
                    s = idx.exit_marker[name]
                    if s in hist_parents and s not in exited_in_seg:
                        remembered[s] = frozenset(x for x in seg_start if tree.is_proper_desc(x, s))
                    exited_in_seg.add(s)
                    active.discard(s)
                elif name in idx.entry_marker:
                    active.add(idx.entry_marker[name])
                buf.append(e)
            elif e[0] == "trans":
                tid = e[1]
                ti = idx.trans.get(tid) if tid else None
                if ti is not None and ti.target is not None and tree[ti.target].kind == "history":
                    _judge(engine, tree, idx, ti, e, buf, seg_start, None, remembered, exited_in_seg, res, nt)
                seg_start = set(active)
                buf = []
                exited_in_seg = set()
        if frozenset(active) != o.cfg:
            if tree.legal(o.cfg):
                res.inconclusive = "illegal-config"
                return
            active = set(o.cfg)
            seg_start = set(active)


def _judge(engine, tree, idx, ti, hook, buf, seg_start, _unused, remembered, exited_in_seg, res, nt):
    hid = ti.target
    P = tree[hid].parent
    # domain: source outside P and P inactive when the transition is taken
    if tree.is_desc(ti.source, P):
        res.classes.append("skip:source-inside-parent")
        return
    if P in seg_start:
        res.classes.append("skip:parent-active")
        return
    rem = remembered.get(P)
    exp, mode = _expected(tree, hid, rem)
    got = {x for x in hook[3] if tree.is_desc(x, P)}
    entries = [idx.entry_marker[b[1]] for b in buf if b[0] == "act" and b[1] in idx.entry_marker]
    pk = tree[P].kind
    res.classes.append(f"judged:{mode}:{pk}")
    shape = f"{mode}|{pk}"
    if got != exp:
        res.violate(f"{engine}|wrong-restored-configuration|{shape}",
                    {"engine": engine, "history": hid, "expected": sorted(exp), "got": sorted(got),
                     "remembered": sorted(rem) if rem is not None else None})
    else:
        inside = [s for s in entries if tree.is_desc(s, P)]
        if sorted(inside) != sorted(exp):
            res.violate(f"{engine}|restored-states-not-entered-exactly-once|{shape}",
                        {"engine": engine, "history": hid, "expected": sorted(exp), "entries": inside})
    default_leafs = set(tree.leaves(tree.default_entry(P)))
    if rem is not None and (set(tree.leaves(exp)) != default_leafs or pk == "parallel" or
                            (tree[hid].hist == "deep" and max((tree[x].depth for x in exp), default=0) - tree[P].depth >= 2)):
        nt.append(1)
    elif rem is None and pk == "parallel":
        nt.append(1)


def check_case(case) -> CaseResult:
    res = CaseResult()
    spec = case["spec"]
    tree = Tree(spec)
    idx = Index(spec)
    res.excluded = dict(spec.get("_excluded", {}))
    nt: list = []
    for engine in ("sync", "async"):
        _check_run(engine, case, tree, idx, res, nt)
        res.extra_evals += 1
    res.extra_evals -= 1
    res.nontrivial = bool(nt)
    seen = set()
    uniq = []
    for t, d in res.violations:
        if t not in seen:
            seen.add(t)
            uniq.append((t, d))
    res.violations = uniq
    res.sample = {"states": {n.id: n.kind + (":" + (n.hist or "") if n.kind == "history" else "") for n in tree.nodes.values()},
                  "P": case.get("P"), "history": case["history"]}
    return res
