"""C18 — config front-end: spellings are equivalent, malformed input fails loudly."""
from __future__ import annotations

import copy
import json
import logging
import traceback

from hypothesis import strategies as st

from .. import drivers, findings, gen
from ..fingerprint import diff, machine_fp
from ..gen import D
from ..recorder import Recorder, StepBudgetExceeded
from ..render import Renderer, state_transitions, walk_actions, walk_guards, walk_states
from ..runner import CaseResult, case_fp
from ..tree import Tree, path_to_id

PROPERTY = "C18"
LEVEL = "exploration"
TECHNIQUE = "metamorphic property-based testing (one generated machine rendered under two independently drawn spellings; fingerprints and traces must agree) + enumerated single-point type corruption of generated configs with a 'rejected cleanly' oracle"
RULE = (
    "Campaign spell: a generated MachineSpec (hierarchy, parallel, history with default targets, guards incl. composites, "
    "always, onDone, after, invoke, custom ids, nested choose/pure/enqueueActions) is rendered twice with independently drawn spellings for every construct "
    "the statement lists: string / object / one-element-list transitions, `always` vs the empty-string event, `cond` vs "
    "`guard` (on transitions and on choose branches), action string / list / object, delay '100' vs 100, omitted `initial` with a single child, targets as "
    "sibling key / dotted path / leading-dot / #machine.path / #customId (only spellings that an independent model of the "
    "documented resolution order maps to the same state); oracle: equal deep fingerprints (resolved targets, full guard "
    "structure, actions, delays, invokes) and equal SyncInterpreter traces on a generated history. Campaign corrupt: every "
    "JSON position of a generated valid config is replaced, one at a time, by a value of each other JSON type; "
    "create_machine -> start -> send x4 must either work or raise an XStateMachineError subclass (a raw TypeError / "
    "AttributeError / KeyError / ValueError is a violation); corruptions the statement and the field table declare "
    "uninterpretable (non-object states/on/after/invoke item, non-string id/initial/target, ...) must be rejected. "
    "Both eventless spellings may be used in one state (first k candidates under on[''], the rest under always). "
    "Non-trivial (spell) = the two renderings differ in >=3 spelling choices incl. a target spelling; (corrupt) = each "
    "corrupted position is a distinct case."
)
ASSUMPTIONS = [
    "only spellings whose meaning the documented resolution order fixes are generated (a plain key that the bubbling rule "
    "would resolve to a different state is never used)",
    "single-point corruptions outside the catalogue that are accepted are counted as 'accepted, unspecified', not judged",
]
logging.disable(logging.CRITICAL)
CASE_TIMEOUT = 120

BASE = dict(after=True, invoke=True, guards="tab", p_guard=40, always=True, ondone=True, nested_builtins=True,
            p_handler=35, max_iterations=30, history=True, unhandled_service_errors=False)
BASE["raise"] = True


def plan(tier):
    q = tier == "quick"
    return [{"name": "main", "examples": 1500 if q else 30000}, {"name": "corrupt", "examples": 120 if q else 4000}]


# ----------------------------------------------------------------------------- spelling assignment
def _composite_forms(d: D, g):
    if g is None:
        return
    for x in walk_guards(g):
        if x["k"] in ("and", "or"):
            x["sp"] = {"form": d.pick(["children", "params.guards", "params.children"])}
        elif x["k"] == "not":
            x["sp"] = {"form": d.pick(["children", "params.guards", "params.guard"])}
        elif x["k"] in ("tab", "const", "ctx"):
            x["sp"] = {"obj": d.chance(40)}


def spell(spec: dict, d: D) -> (dict, list):
    """Returns a deep copy of the spec with drawn spelling choices, and the list of choices made."""
    sp_spec = copy.deepcopy(spec)
    tree = Tree(sp_spec)
    cids = {s["cid"]: sid for sid, s in walk_states(sp_spec) if s.get("cid")}
    choices = []
    for sid, s in walk_states(sp_spec):
        ssp = {}
        if s["kind"] == "history":
            if s.get("htarget") is not None:
                opts = tree.spellings(sid, path_to_id(tree.mid, s["htarget"]), cids)
                ssp["tstr"] = d.pick(opts)
                choices.append("htarget:" + ("#" if ssp["tstr"].startswith("#") else "." if ssp["tstr"].startswith(".") else "plain"))
            ssp["explicit_shallow"] = d.chance(50)
            s["sp"] = ssp
            continue
        real = [c for c in s.get("children", []) if c["kind"] != "history"]
        if s["kind"] == "compound" and len(real) == 1 and d.chance(50):
            ssp["omit_initial"] = True
            choices.append("omit-initial")
        if s["kind"] == "compound" and d.chance(30):
            ssp["explicit_type"] = True
        if s.get("always") and len(s["always"]) >= 2 and d.chance(30):
            # both eventless spellings in one state: the first k candidates under on[""] and the rest under
            # `always` (the parser folds `always` into the "" bucket, behind what `on` already put there)
            ssp["always_split"] = d.int(1, len(s["always"]) - 1)
            choices.append("always-split")
        elif s.get("always") and d.chance(50):
            ssp["always_as_on"] = True
            choices.append("always-as-on")
        if s.get("after") and d.chance(50):
            ssp["after_str"] = True
            choices.append("after-str")
        if d.chance(40):
            ssp["aform"] = "single"
        if s.get("invoke") and d.chance(50):
            ssp["invoke_list"] = True
        s["sp"] = ssp
        # `cond` vs `guard` also inside choose branches (any nesting depth, every action list)
        lists = [s.get("entry"), s.get("exit")] + [t.get("actions") for _f, _k, _i, t in state_transitions(s) if not t.get("null")]
        for lst in lists:
            for a in walk_actions(lst or []):
                if a.get("k") == "choose":
                    for b in a.get("branches", []):
                        if b.get("guard") is not None:
                            b["gkey"] = d.pick(["guard", "cond"])
                            choices.append("choose-gkey:" + b["gkey"])
                            _composite_forms(d, b["guard"])
        for fam in ("entry", "exit"):
            for a in s.get(fam) or []:
                if a["k"] in ("mark", "user"):
                    a["sp"] = {"obj": d.chance(40)}
        for fam, key, i, t in state_transitions(s):
            if t.get("null"):
                continue
            tsp = {}
            if t.get("guard") is not None:
                tsp["gkey"] = d.pick(["guard", "cond"])
                choices.append("gkey:" + tsp["gkey"])
                _composite_forms(d, t["guard"])
            if t.get("target") is not None:
                opts = tree.spellings(sid, path_to_id(tree.mid, t["target"]), cids)
                tsp["tstr"] = d.pick(opts)
                choices.append("target:" + ("#cid" if tsp["tstr"].startswith("#") and not tsp["tstr"].startswith("#" + tree.mid) else "#abs" if tsp["tstr"].startswith("#") else "dot" if tsp["tstr"].startswith(".") else "plain"))
            tsp["lform"] = d.pick(["string", "object", "list"])
            choices.append("lform:" + tsp["lform"])
            if len(t.get("actions") or []) == 1 and d.chance(50):
                tsp["aform"] = "single"
                choices.append("action-single")
            for a in t.get("actions") or []:
                if a["k"] in ("mark", "user"):
                    a["sp"] = {"obj": d.chance(40)}
            t["sp"] = tsp
    return sp_spec, choices


@st.composite
def _spell_case(draw):
    prof = gen.profile(**BASE)
    spec = draw(gen.machine_specs(prof))
    d = D(draw)
    # the general generator gives a state at most one `always` candidate: add a second (and third) one to half of
    # them, so that eventless candidate LISTS exist and can be spelled through on[""], `always`, or both at once
    grew = False
    for sid, s in walk_states(spec):
        if s.get("always") and d.chance(50):
            for _ in range(d.int(1, 2)):
                extra = {"target": copy.deepcopy(s["always"][0].get("target")), "actions": [],
                         "guard": {"k": "const", "val": d.chance(30)}}
                if d.chance(50):
                    s["always"].append(extra)
                else:
                    s["always"].insert(0, extra)
            grew = True
    if grew:
        from ..render import finalize

        finalize(spec)
    # custom ids on some states
    n = 0
    for sid, s in walk_states(spec):
        if sid != spec["id"] and s["kind"] != "history" and d.chance(20):
            s["cid"] = f"cid{n}"
            n += 1
    # a few composite guards so that operand spellings are exercised
    for sid, s in walk_states(spec):
        for fam, key, i, t in state_transitions(s):
            if t.get("guard") is not None and t["guard"]["k"] == "tab" and d.chance(25):
                g = t["guard"]
                other = {"k": "const", "val": d.chance(50)}
                t["guard"] = d.pick([{"k": "and", "args": [g, other]}, {"k": "or", "args": [other, g]}, {"k": "not", "arg": g}])
    a, ca = spell(spec, d)
    b, cb = spell(spec, d)
    hist = draw(gen.histories(prof, max_len=10, advance=True))
    return {"kind": "spell", "a": a, "b": b, "history": hist, "ndiff": sum(1 for x, y in zip(ca, cb) if x != y),
            "target_diff": any(x != y and x.startswith("target:") for x, y in zip(ca, cb))}


def strategy(tier, campaign):
    if campaign == "main":
        return _spell_case()
    # no `after` here: the corruption loop runs the plain engine (real threads would fire later)
    prof = gen.profile(**dict(BASE, after=False, max_states=10, max_depth=2))
    return st.fixed_dictionaries({"kind": st.just("corrupt"), "spec": gen.machine_specs(prof)})


# ----------------------------------------------------------------------------- spelling check
def _trace(spec, history):
    run = drivers.run_sync(spec, history)
    out = []
    for o in run.steps:
        out.append({"cfg": sorted(o.cfg), "ctx": o.ctx, "status": o.status, "exc": o.exc,
                    "acts": [(e[1], e[2], e[3]) for e in o.log if e[0] == "act"]})
    return run, out


def _norm_raw_guard(g):
    """Canonical form of a guard as it sits (unparsed) inside choose params: the spelling of the
    key, of a plain name and of composite operands is exactly what this campaign varies."""
    if isinstance(g, str):
        return {"type": g}
    if isinstance(g, dict):
        t = g.get("type")
        p = g.get("params") if isinstance(g.get("params"), dict) else {}
        kids = g.get("children")
        if kids is None:
            kids = p.get("guards", p.get("children"))
        if kids is None and "guard" in p:
            kids = [p["guard"]]
        if t in ("and", "or", "not") and kids is not None:
            return {"type": t, "children": [_norm_raw_guard(k) for k in kids]}
        out = {"type": t}
        if p:
            out["params"] = p
        return out
    return g


def _norm_fp(x):
    if isinstance(x, dict):
        if "conditions" in x and isinstance(x["conditions"], list):
            conds = []
            for c in x["conditions"]:
                if isinstance(c, dict):
                    c = dict(c)
                    g = c.pop("cond", None)
                    g = c.pop("guard", g)
                    c = {k: _norm_fp(v) for k, v in c.items()}
                    if g is not None:
                        c["guard"] = _norm_raw_guard(g)
                conds.append(c)
            x = dict(x, conditions=conds)
            return {k: (v if k == "conditions" else _norm_fp(v)) for k, v in x.items()}
        return {k: _norm_fp(v) for k, v in x.items()}
    if isinstance(x, list):
        return [_norm_fp(v) for v in x]
    return x


def check_spell(case, res: CaseResult):
    from xstate_statemachine import create_machine

    a, b, history = case["a"], case["b"], case["history"]
    fps = []
    for spec in (a, b):
        try:
            r = Renderer(spec, Recorder())
            m = create_machine(r.config(), logic=r.logic())
            fps.append(_norm_fp(machine_fp(m)))
        except Exception as e:  # noqa
            from xstate_statemachine.exceptions import XStateMachineError

            res.violate(f"spell|valid-spelling-rejected|{type(e).__name__}", {"msg": str(e)[:300]})
            return
    d = diff(fps[0], fps[1])
    if d:
        part = [p for p in d[0].split("/") if p and not p.startswith("m")]
        what = "/".join(x.split("[")[0] for x in d[0].split("/")[3:]) or d[0]
        res.violate(f"spell|fingerprint-differs|{what}", {"path": d[0], "a": d[1], "b": d[2]})
        return
    ra, ta = _trace(a, history)
    rb, tb = _trace(b, history)
    res.extra_evals += 1
    if ra.aborted or rb.aborted:
        res.inconclusive = "budget"
        return
    if ta != tb:
        i = next((k for k, (x, y) in enumerate(zip(ta, tb)) if x != y), -1)
        fld = next((f for f in ta[i] if ta[i][f] != tb[i][f]), "?") if i >= 0 else "len"
        res.violate(f"spell|trace-differs|{fld}", {"step": i, "a": ta[i][fld] if i >= 0 else None, "b": tb[i][fld] if i >= 0 else None})
    res.nontrivial = case["ndiff"] >= 3 and case["target_diff"]


# ----------------------------------------------------------------------------- corruption
REPL = [None, True, False, 0, 7, "zz", [], {}, [1], {"x": 1}]


def _jtype(v):
    if v is None:
        return "null"
    if isinstance(v, bool):
        return "bool"
    if isinstance(v, (int, float)):
        return "number"
    if isinstance(v, str):
        return "string"
    if isinstance(v, list):
        return "array"
    if isinstance(v, dict):
        return "object"
    return "callable"


def _positions(cfg, path=()):
    yield path, cfg
    if isinstance(cfg, dict):
        for k, v in cfg.items():
            yield from _positions(v, path + (k,))
    elif isinstance(cfg, list):
        for i, v in enumerate(cfg):
            yield from _positions(v, path + (i,))


def _set(cfg, path, val):
    c = cfg
    for k in path[:-1]:
        c = c[k]
    c[path[-1]] = val


MUST_REJECT_KEYS = {"states", "on", "after"}


def _must_reject(path, orig, new):
    """Catalogue of corruptions the statement / field table declare uninterpretable."""
    if not path:
        return "config-not-object" if not isinstance(new, dict) else None
    key = path[-1]
    if isinstance(key, str):
        parent_is_state = len(path) == 1 or (len(path) >= 2 and path[-2] != "params" and "params" not in path)
        if "params" in path or "context" in path or "meta" in path or "input" in path or "output" in path:
            return None
        if key in MUST_REJECT_KEYS and not isinstance(new, dict):
            if new is None and key in ("on", "after"):
                return None
            return f"{key}-not-object"
        if key == "id" and not isinstance(new, str) and len(path) == 1:
            return "root-id-not-string"
        if key == "id" and not isinstance(new, str) and new is not None and len(path) >= 2 and path[-2] != "invoke" and not isinstance(path[-2], int):
            return "state-id-not-string"
        if key == "initial" and new is not None and not isinstance(new, str):
            return "initial-not-string"
        if key == "target" and new is not None and not isinstance(new, str):
            return "target-not-string"
    if len(path) >= 2 and path[-2] == "states" and isinstance(key, str) and not isinstance(new, dict):
        return "state-definition-not-object"
    if len(path) >= 1 and path[-1] == "invoke" and not isinstance(new, (dict, list)) and new is not None:
        return "invoke-not-object"
    return None


def _frame(e):
    tb = traceback.extract_tb(e.__traceback__)
    for fr in reversed(tb):
        if "xstate_statemachine" in fr.filename:
            return fr.name
    return "?"


def check_corrupt(case, res: CaseResult):
    from xstate_statemachine import Event, SyncInterpreter, create_machine
    from xstate_statemachine.exceptions import XStateMachineError

    spec = case["spec"]
    rec = Recorder(budget=600)
    r = Renderer(spec, rec)
    cfg = r.config()
    logic = r.logic()
    keys = []
    positions = [(p, v) for p, v in _positions(cfg) if _jtype(v) != "callable" and not any(_jtype(x) == "callable" for x in ())]
    only = case.get("only")
    for path, orig in positions:
        # positions inside callables' containers are fine; skip values that are python callables
        for new in REPL:
            if _jtype(new) == _jtype(orig) and not (isinstance(orig, (list, dict)) and new != orig and not new):
                continue
            if only is not None and [list(path), new] != only:
                continue
            bad = copy.copy(cfg) if not path else _deepcopy_json(cfg)
            if not path:
                bad = copy.deepcopy(new)
            else:
                _set(bad, path, copy.deepcopy(new))
            res.extra_evals += 1
            keys.append(case_fp([list(path), new]))
            stage = "create"
            outcome = "accepted"
            err = None
            it = None
            rec.steps = 0
            rec.blown = False
            try:
                m = create_machine(bad, logic=logic)
                stage = "start"
                it = SyncInterpreter(m)
                it.start()
                stage = "send"
                for ev in ("A", "B", "C", "D"):
                    try:
                        it.send(Event(ev, {"seq": 0}))
                    except XStateMachineError:
                        outcome = "rejected"
            except XStateMachineError:
                outcome = "rejected"
            except Exception as e:  # noqa
                outcome = "raw"
                err = e
            except StepBudgetExceeded:
                outcome = "budget"
            finally:
                try:
                    if it is not None:
                        it.stop()
                except Exception:  # noqa
                    pass
            where = str(path[-1]) if path and isinstance(path[-1], str) else ("item" if path else "root")
            if outcome == "raw":
                res.violate(f"corrupt|raw-{type(err).__name__}|{stage}|{where}|{_frame(err)}",
                            {"path": list(path), "replacement": new, "original_type": _jtype(orig), "stage": stage,
                             "msg": str(err)[:200], "only": [list(path), new]})
            else:
                cat = _must_reject(path, orig, new)
                if cat and outcome == "accepted":
                    res.violate(f"corrupt|accepted-uninterpretable|{cat}", {"path": list(path), "replacement": new, "only": [list(path), new]})
                res.classes.append(outcome + (":catalogue" if cat else ""))
    res.nontrivial = True
    res.nontrivial_keys = [case_fp([case_fp(spec), k]) for k in keys[:4000]]
    res.extra_evals = max(0, res.extra_evals - 1)


def _deepcopy_json(x):
    if isinstance(x, dict):
        return {k: _deepcopy_json(v) for k, v in x.items()}
    if isinstance(x, list):
        return [_deepcopy_json(v) for v in x]
    return x


def shrink_case(case, fails, budget):
    """Corrupt cases shrink by pinning the single failing corruption, then structurally; spell
    cases are kept as Hypothesis left them."""
    if case.get("kind") != "corrupt":
        return case
    res = CaseResult()
    try:
        check_corrupt(case, res)
    except Exception:  # noqa
        return case
    for tag, detail in res.violations:
        cand = dict(case, only=detail.get("only"))
        if cand["only"] is not None and fails(cand):
            return cand
    return case


def check_case(case) -> CaseResult:
    res = CaseResult()
    if case.get("kind") == "spell":
        check_spell(case, res)
        res.sample = {"history": case["history"], "spelling_differences": case["ndiff"]}
    else:
        check_corrupt(case, res)
        res.sample = {"positions_x_replacements": res.extra_evals + 1}
    seen = set()
    uniq = []
    for t, d_ in res.violations:
        if t not in seen:
            seen.add(t)
            uniq.append((t, d_))
    res.violations = uniq
    return res
