"""C19 — Python-defined machines and discovered logic equal their JSON counterparts."""
from __future__ import annotations

import copy
import logging
import types

from hypothesis import strategies as st

from .. import findings, gen
from ..fingerprint import diff, machine_fp
from ..gen import D
from ..render import walk_states, state_transitions
from ..runner import CaseResult, case_fp
from ..tree import Tree, path_to_id

PROPERTY = "C19"
LEVEL = "exploration"
TECHNIQUE = "differential property-based testing: one generated definition built through the functional, builder and class-based Python front-ends vs create_machine() on the JSON it denotes (deep fingerprint + sync traces); generated logic modules/providers/subclasses for discovery"
RULE = (
    "Campaign frontends: a generated MachineSpec restricted to what the Python styles express (nesting, parallel, history, "
    "after, always, invoke, onDone, tags, meta, root-level on/entry/exit, named guards, named actions) is rendered (a) to "
    "JSON with absolute targets + MachineLogic, (b) build_machine(State/Transition objects), (c) MachineBuilder, (d) a "
    "StateMachine subclass created with type(); oracle: equal deep fingerprints (resolved targets!) and equal sync traces "
    "with the JSON-built machine; two builds from one definition are independent (run one, the other still equals a "
    "fresh build); transitions are passed one by one or combined with `|` in left, right and mixed association (candidate "
    "order must stay the declared one). State names are unique in the main campaign; a probe campaign repeats a name in two branches. "
    "Campaign discovery: configs whose action/guard/service names are letter-only camelCase or snake_case are bound from "
    "a generated types.ModuleType / provider instance / MachineLogic subclass written in the other casing; every "
    "referenced name must be bound (the bound callable runs) or create_machine must raise ImplementationMissingError at "
    "creation; names inside choose branches, invoke handlers and composite guards nested up to two deep count; a user implementation named like a built-in "
    "(log, assign) or `stateIn` must run instead of the built-in. Non-trivial (frontends) = >=2 levels of nesting or a "
    "transition whose source and target live in different branches; (discovery) = a name found only via the other casing "
    "or a built-in shadow."
    ' Also: Builder style: trailing candidates of an event may be declared through MachineBuilder.transition() behind the list declared on the state, and build() is called repeatedly; MachineLogic subclasses declare their methods as instance, static, inherited or mixin methods.'
)
ASSUMPTIONS = [
    "camelCase names are letter-only components, where every camelCase convention agrees",
    "the JSON a Python definition denotes puts each transition on exactly the State object it was declared on and targets "
    "exactly the State object passed",
]
logging.disable(logging.CRITICAL)

BASE = dict(after=True, invoke=False, guards="tab", p_guard=30, always=True, ondone=True, nested_builtins=False,
            p_handler=35, max_iterations=None, history=True, null_transitions=False, assign=False,
            exclude_classes=["root"])  # a State object for the machine root cannot be a transition target
BASE["raise"] = False


def plan(tier):
    q = tier == "quick"
    out = [{"name": "main", "examples": 4000 if q else 150000}, {"name": "discovery", "examples": 2000 if q else 80000}]
    for f in findings.open_for(PROPERTY):
        if f.exclude_profile:
            out.append({"name": "probe:" + f.id, "examples": 300 if q else 3000, "shards": 4})
    return out


def _unique_names(spec, unique=True):
    """Renames state keys so that they are unique in the whole tree (or deliberately not)."""
    n = [0]

    def rec(s, prefix):
        for c in s.get("children", []):
            old = c["key"]
            new = (prefix + old) if unique else old
            c["_old"] = old
            c["key"] = new
            rec(c, new + "_" if unique else prefix)

    rec(spec["root"], "s")
    # rewrite paths (initial, targets, htargets)
    def newpath(path):
        s = spec["root"]
        out = []
        for k in path:
            s = next(c for c in s["children"] if c.get("_old") == k)
            out.append(s["key"])
        return out

    for sid, s in list(walk_states(spec)):
        pass

    def fix(s):
        if s.get("initial") is not None:
            s["initial"] = next(c["key"] for c in s["children"] if c.get("_old") == s["initial"])
        if s.get("htarget") is not None:
            s["htarget"] = newpath(s["htarget"])
        for fam, key, i, t in state_transitions(s):
            if t.get("target") is not None:
                t["target"] = newpath(t["target"])
        for c in s.get("children", []):
            fix(c)

    fix(spec["root"])

    def clean(s):
        s.pop("_old", None)
        for c in s.get("children", []):
            clean(c)

    clean(spec["root"])
    return spec


@st.composite
def _front_case(draw, unique=True):
    prof = gen.profile(**BASE)
    spec = draw(gen.machine_specs(prof))
    d = D(draw)
    for sid, s in walk_states(spec):
        if s["kind"] != "history" and d.chance(15):
            s["tags"] = ["t" + str(d.int(0, 3))]
        if s["kind"] != "history" and d.chance(10):
            s["meta"] = {"m": d.int(0, 9)}
    _unique_names(spec, unique)
    spec["_grouping"] = d.pick(["separate", "left", "right", "right", "mixed"])
    spec["_bsplit"] = d.pick(["none", "tail", "tail", "all"])      # builder: candidates declared via .transition()
    spec["_bsplit_list"] = d.chance(50)
    from ..render import finalize

    finalize(spec)
    hist = draw(gen.histories(prof, max_len=8))
    return {"kind": "front", "spec": spec, "history": hist, "unique": unique}


ACTS = ["doThing", "sendMail", "checkAll", "markDone"]
GUARDS = ["isReady", "hasRoom", "canGo"]
SERVICES = ["loadUser", "fetchAll"]


def _to_snake(name):
    out = ""
    for ch in name:
        out += ("_" + ch.lower()) if ch.isupper() else ch
    return out


@st.composite
def _disc_case(draw):
    d = D(draw)
    acts = draw(st.lists(st.sampled_from(ACTS + ["log", "assign"]), min_size=1, max_size=4, unique=True))
    guards = draw(st.lists(st.sampled_from(GUARDS + ["stateIn"]), min_size=0, max_size=2, unique=True))
    services = draw(st.lists(st.sampled_from(SERVICES), min_size=0, max_size=1, unique=True))
    return {
        "kind": "disc",
        "actions": acts, "guards": guards, "services": services,
        # documented convention: Python functions in snake_case (or the same spelling) bind JSON
        # names; a snake_case config name with a camelCase function is not promised and not generated
        "config_casing": "camel",
        "impl_casing": draw(st.sampled_from(["camel", "snake"])),
        "source": draw(st.sampled_from(["module", "provider", "subclass"])),
        "omit": draw(st.sampled_from([None, None, "action", "guard", "service"])),
        "place": draw(st.sampled_from(["transition", "entry", "choose", "invoke-handler", "always"])),
        "composite": draw(st.sampled_from([0, 0, 1, 2, 3])),
        # how the methods of a MachineLogic subclass / provider object are declared
        "method_kind": draw(st.sampled_from(["instance", "instance", "static", "inherited", "mixin"])),
    }


def strategy(tier, campaign):
    if campaign == "main":
        opens = [f for f in findings.open_for(PROPERTY) if f.exclude_profile]
        uniq = True if any(f.exclude_profile.get("unique_names") is True for f in opens) else draw_unique()
        return _front_case(unique=uniq)
    if campaign == "discovery":
        return _disc_case()
    return _front_case(unique=False)


def draw_unique():
    # without an open finding about repeated names the main campaign mixes both
    return True


# ----------------------------------------------------------------------------- rendering to the Python styles
def _act_names(lst):
    return [a["name"] for a in (lst or []) if a["k"] in ("mark", "user")]


def _guard_name(g):
    from ..render import guard_name

    return None if g is None else guard_name(g)


def _tcfg(t, mid, names):
    """JSON-ish transition config with a bare-name target (what the Python styles take for always/after/onDone)."""
    c = {}
    if t.get("target") is not None:
        c["target"] = names[path_to_id(mid, t["target"])]
    if t.get("guard") is not None:
        c["guard"] = _guard_name(t["guard"])
    acts = _act_names(t.get("actions"))
    if acts:
        c["actions"] = acts
    if t.get("reenter"):
        c["reenter"] = True
    return c


def build_python(spec, style, logic):
    """Builds the machine through one of the three Python front-ends."""
    from xstate_statemachine.pythonic import MachineBuilder, State, StateMachine, action, build_machine, guard

    mid = spec["id"]
    tree = Tree(spec)
    names = {n.id: n.key for n in tree.nodes.values()}
    objs = {}

    def mk_state(s, sid, is_initial):
        kw = {}
        if s["kind"] == "history":
            st_ = State(s["key"], history=s.get("hist", "shallow"))
            if s.get("htarget") is not None:
                # the State() constructor has no parameter for a history default target
                raise NotExpressible("history default target")
            objs[sid] = st_
            return st_
        kids = []
        for c in s.get("children", []):
            kids.append(mk_state(c, sid + "." + c["key"], s.get("initial") == c["key"]))
        entry = _act_names(s.get("entry"))
        exit_ = _act_names(s.get("exit"))
        if s.get("after"):
            kw["after"] = {delay: [_tcfg(t, mid, names) for t in ts] if len(ts) > 1 else _tcfg(ts[0], mid, names) for delay, ts in s["after"]}
        if s.get("always"):
            kw["always"] = [_tcfg(t, mid, names) for t in s["always"]]
        if s.get("onDone"):
            kw["on_done"] = _tcfg(s["onDone"], mid, names)
        if s.get("tags"):
            kw["tags"] = list(s["tags"])
        if s.get("meta"):
            kw["meta"] = dict(s["meta"])
        st_ = State(s["key"], initial=is_initial, final=s["kind"] == "final", parallel=s["kind"] == "parallel",
                    entry=entry or None, exit=exit_ or None, states=kids or None, **kw)
        objs[sid] = st_
        return st_

    root = spec["root"]
    tops = [mk_state(c, mid + "." + c["key"], root.get("initial") == c["key"]) for c in root.get("children", [])]
    transitions = []
    for sid, s in walk_states(spec):
        if sid == mid or s["kind"] == "history":
            continue
        for ev, ts in s.get("on", []) or []:
            for t in ts:
                src = objs[sid]
                g = _guard_name(t.get("guard"))
                acts = _act_names(t.get("actions"))
                if t.get("target") is None:
                    transitions.append(src.internal(ev, guard=g, actions=acts))
                else:
                    transitions.append(src.to(objs[path_to_id(mid, t["target"])], event=ev, guard=g, actions=acts,
                                              reenter=bool(t.get("reenter"))))
    # ---- the `|` operator: combine runs of 2-3 consecutive transitions in the drawn association
    #      (order of candidates must stay the declared one: t1 | (t2 | t3) == (t1 | t2) | t3)
    grouping = spec.get("_grouping", "separate")
    if grouping != "separate" and len(transitions) >= 2:
        grouped, i, flip = [], 0, 0
        while i < len(transitions):
            run = transitions[i:i + 3]
            i += 3
            if len(run) == 1:
                grouped.append(run[0])
                continue
            mode = grouping if grouping != "mixed" else ("left", "right")[flip % 2]
            flip += 1
            if mode == "left":
                g_ = run[0]
                for t_ in run[1:]:
                    g_ = g_ | t_
            else:
                g_ = run[-1]
                for t_ in reversed(run[:-1]):
                    g_ = t_ | g_
            grouped.append(g_)
        transitions = grouped
    # root-level properties
    root_kw = {}
    if root.get("on"):
        root_kw["on"] = {ev: ([_tcfg(t, mid, names) for t in ts] if len(ts) > 1 else _tcfg(ts[0], mid, names)) for ev, ts in root["on"]}
    if root.get("always"):
        root_kw["always"] = [_tcfg(t, mid, names) for t in root["always"]]
    if root.get("after"):
        root_kw["after"] = {delay: [_tcfg(t, mid, names) for t in ts] if len(ts) > 1 else _tcfg(ts[0], mid, names) for delay, ts in root["after"]}
    if root.get("tags"):
        root_kw["tags"] = list(root["tags"])
    if root.get("meta"):
        root_kw["meta"] = dict(root["meta"])
    root_state = State("", parallel=root["kind"] == "parallel", entry=_act_names(root.get("entry")) or None,
                       exit=_act_names(root.get("exit")) or None, **root_kw)
    ctx = copy.deepcopy(spec.get("context"))
    acts = [action(n)(f) for n, f in logic.actions.items()]
    grds = [guard(n)(f) for n, f in logic.guards.items()]
    if style == "functional":
        return build_machine(id=mid, states=tops, transitions=transitions, actions=acts, guards=grds, context=ctx, root=root_state)
    if style == "class":
        ns = {"machine_id": mid, "initial_context": ctx, "machine_root": root_state}
        for i, t_ in enumerate(tops):
            ns["st_%d" % i] = t_
        for i, tr in enumerate(transitions):
            ns["tr_%d" % i] = tr
        for i, (n, f) in enumerate(logic.actions.items()):
            ns["act_%d" % i] = action(n)(_as_method(f))
        for i, (n, f) in enumerate(logic.guards.items()):
            ns["grd_%d" % i] = guard(n)(_as_method(f))
        cls = type("GenMachine", (StateMachine,), ns)
        return cls.create_machine()
    raise ValueError(style)


class NotExpressible(Exception):
    pass


def _as_method(f):
    def m(self, *a, **k):
        return f(*a, **k)

    m.__name__ = getattr(f, "__name__", "fn")
    return m


def build_builder(spec, logic):
    """MachineBuilder: top-level states via .state(), deeper levels via raw child_states dicts."""
    from xstate_statemachine.pythonic import MachineBuilder

    from ..recorder import Recorder
    from ..render import Renderer

    mid = spec["id"]
    # the builder takes raw config dicts below the top level: render them with bare-name targets
    tree = Tree(spec)
    names = {n.id: n.key for n in tree.nodes.values()}
    sp = copy.deepcopy(spec)
    for sid, s in walk_states(sp):
        # (history default targets keep their absolute spelling: the raw dicts the builder takes are
        #  ordinary config, and a bare name is only documented to reach children of ancestors)
        for fam, key, i, t in state_transitions(s):
            if t.get("target") is not None:
                t.setdefault("sp", {})["tstr"] = names[path_to_id(mid, t["target"])]
    r = Renderer(sp, Recorder())
    cfg = r.config()
    b = MachineBuilder(mid)
    if cfg.get("context") is not None:
        b.context(cfg["context"])
    root = sp["root"]
    later = []
    for c in root.get("children", []):
        cc = cfg["states"][c["key"]]
        trans_on = dict(cc.get("on", {}))
        # some candidates are declared through MachineBuilder.transition() instead of the state's own `on` table: the
        # trailing candidate(s) of an event's list, when they use nothing but what transition() can say (bare-name
        # target, named guard, named actions, reenter). build() appends them to the list declared on the state.
        split = spec.get("_bsplit", "none")
        if split != "none":
            for ev in list(trans_on):
                if ev == "" or trans_on[ev] is None:
                    continue
                cands = trans_on[ev] if isinstance(trans_on[ev], list) else [trans_on[ev]]
                cands = [({"target": x} if isinstance(x, str) else x) for x in cands]
                if not all(isinstance(x, dict) for x in cands):
                    continue
                n_tail = 0
                for x in reversed(cands):
                    g_ = x.get("guard", x.get("cond"))
                    ok = (set(x) <= {"target", "guard", "cond", "actions", "reenter"} and (g_ is None or isinstance(g_, str))
                          and (x.get("target") is None or isinstance(x.get("target"), str))
                          and all(isinstance(a_, str) for a_ in (x.get("actions") or [])) and isinstance(x.get("actions") or [], list))
                    if not ok:
                        break
                    n_tail += 1
                    if split == "tail":
                        break
                if n_tail == 0:
                    continue
                head, tail = cands[:len(cands) - n_tail], cands[len(cands) - n_tail:]
                if head:
                    trans_on[ev] = head if (len(head) > 1 or spec.get("_bsplit_list")) else head[0]
                else:
                    del trans_on[ev]
                for x in tail:
                    later.append(dict(source=c["key"], event=ev, target=x.get("target") or c["key"], guard=x.get("guard", x.get("cond")),
                                      actions=list(x.get("actions") or []) or None, reenter=bool(x.get("reenter")), internal=x.get("target") is None))
        b.state(c["key"], initial=root.get("initial") == c["key"], final=c["kind"] == "final", parallel=c["kind"] == "parallel",
                entry=cc.get("entry"), exit=cc.get("exit"), after=cc.get("after"), on_done=cc.get("onDone"),
                always=cc.get("always"), history=c.get("hist") if c["kind"] == "history" else None, tags=cc.get("tags"),
                meta=cc.get("meta"), on=trans_on or None)
        if cc.get("states"):
            b.child_states(c["key"], initial=cc.get("initial"), states=cc["states"], parallel=c["kind"] == "parallel")
    rootprops = {k: cfg[k] for k in ("on", "entry", "exit", "always", "after", "tags", "meta") if k in cfg}
    if root["kind"] == "parallel":
        rootprops["type"] = "parallel"
    if "always" in rootprops:
        rootprops.setdefault("on", {})[""] = rootprops.pop("always")
    if rootprops:
        b.root(**rootprops)
    for t_ in later:
        b.transition(t_.pop("source"), t_.pop("event"), t_.pop("target"), **t_)
    for n, f in logic.actions.items():
        b.action(n, f)
    for n, f in logic.guards.items():
        b.guard(n, f)
    return b, b.build()


def _trace(machine, history):
    from xstate_statemachine import Event, SyncInterpreter

    it = SyncInterpreter(machine)
    out = []
    try:
        it.start()
        out.append((sorted(n.id for n in it._active_state_nodes), copy.deepcopy(it.context), it.status))
        for op in history:
            if op[0] != "send":
                continue
            try:
                it.send(Event(op[1], {"seq": op[2]}))
                exc = None
            except Exception as e:  # noqa
                exc = type(e).__name__
            out.append((sorted(n.id for n in it._active_state_nodes), copy.deepcopy(it.context), it.status, exc))
    except Exception as e:  # noqa
        out.append(("start-raised", type(e).__name__))
    finally:
        try:
            it.stop()
        except Exception:  # noqa
            pass
    return out


def check_front(case, res: CaseResult):
    from xstate_statemachine import create_machine

    from ..recorder import Recorder
    from ..render import Renderer

    spec, history = case["spec"], case["history"]
    spec = copy.deepcopy(spec)
    # timers need threads under the plain sync engine: the Python styles only forward `after`, so
    # keep it in the structure (fingerprint) but never let time pass in the traces
    rec = Recorder(budget=6000)   # an `always` cycle runs to the default bound of 1000 rounds: cut the case short
    r = Renderer(spec, rec)
    cfg, logic = r.config(), r.logic()
    ref = create_machine(cfg, logic=logic)
    ref_fp = machine_fp(ref)
    has_after = any(s.get("after") for _, s in walk_states(spec))
    tree = Tree(spec)
    res.nontrivial = max(n.depth for n in tree.nodes.values()) >= 2
    for style in ("functional", "class", "builder"):
        rec2 = Recorder(budget=6000)
        logic2 = Renderer(spec, rec2).logic()
        try:
            if style == "builder":
                builder, m = build_builder(spec, logic2)
            else:
                m = build_python(spec, style, logic2)
        except NotExpressible as e:
            res.classes.append(f"{style}:not-expressible:{e}")
            continue
        except Exception as e:  # noqa
            res.violate(f"{style}|build-raised|{type(e).__name__}|{'repeated-names' if not case.get('unique', True) else 'unique-names'}", {"msg": str(e)[:300]})
            continue
        res.extra_evals += 1
        d = diff(ref_fp, machine_fp(m))
        if d:
            where = d[0].split("/")
            field = next((x.split("[")[0] for x in where[3:] if x), d[0])
            dup = "repeated-names" if not case.get("unique", True) else "unique-names"
            res.violate(f"{style}|fingerprint-differs|{field}|{dup}", {"path": d[0], "json": d[1], "python": d[2]})
            continue
        if not has_after:
            from ..recorder import StepBudgetExceeded

            try:
                rec.steps = rec2.steps = 0
                ta = _trace(create_machine(Renderer(spec, Recorder(budget=10 ** 9)).config(), logic=logic), history)
                tb = _trace(m, history)
            except StepBudgetExceeded:
                res.inconclusive = "budget"
                return
            if ta != tb:
                i = next((k for k, (x, y) in enumerate(zip(ta, tb)) if x != y), -1)
                res.violate(f"{style}|trace-differs|{'repeated-names' if not case.get('unique', True) else 'unique-names'}", {"step": i, "json": ta[i] if i >= 0 else None, "python": tb[i] if i >= 0 else None})
        # independence of repeated builds: run one build, then a second build must equal a fresh one
        try:
            if style == "builder":
                m1 = builder.build()
                if not has_after:
                    rec2.steps = 0
                    _trace(m1, history)
                m2 = builder.build()
                d2 = diff(ref_fp, machine_fp(m2))
                if d2:
                    res.violate("builder|second-build-differs", {"path": d2[0]})
        except Exception as e:  # noqa
            res.violate(f"{style}|second-build-raised|{type(e).__name__}", {"msg": str(e)[:200]})


# ----------------------------------------------------------------------------- discovery
def check_disc(case, res: CaseResult):
    from xstate_statemachine import Event, MachineLogic, SyncInterpreter, create_machine
    from xstate_statemachine.exceptions import ImplementationMissingError, XStateMachineError

    ran = []
    cfgname = (lambda n: n) if case["config_casing"] == "camel" else _to_snake
    implname = (lambda n: n) if case["impl_casing"] == "camel" else _to_snake
    acts, guards, services = case["actions"], case["guards"], case["services"]
    omit = case["omit"]
    # ---- config
    a_cfg = [cfgname(a) for a in acts]
    g_name = guards[0] if guards else None
    place = case["place"]
    t = {"target": "b", "actions": list(a_cfg) if place == "transition" else []}
    gcfg = None
    if g_name:
        gobj = {"type": cfgname(g_name), "params": {"state": "#m.a"}} if g_name == "stateIn" else cfgname(g_name)
        comp = case["composite"]
        if comp is True or comp == 1:
            gcfg = {"type": "and", "children": [gobj]}
        elif comp == 2:   # a composite nested inside a composite: and(not(not(g)))
            gcfg = {"type": "and", "children": [{"type": "not", "children": [{"type": "not", "children": [gobj]}]}]}
        elif comp == 3:   # not(or(not(g))) spelled through params.guards
            gcfg = {"type": "not", "params": {"guards": [{"type": "or", "children": [{"type": "not", "children": [gobj]}]}]}}
        else:
            gcfg = gobj
        t["guard"] = gcfg
    a_state = {"on": {"GO": t}}
    b_state = {}
    if place == "entry":
        b_state["entry"] = list(a_cfg)
    elif place == "choose":
        t["actions"] = [{"type": "xstate.choose", "params": {"conditions": [{"actions": list(a_cfg)}]}}]
    elif place == "always":
        b_state["always"] = {"target": "c", "actions": list(a_cfg)}
    if services:
        b_state["invoke"] = {"src": cfgname(services[0]), "id": "iv", "onDone": {"target": "c", "actions": list(a_cfg) if place == "invoke-handler" else []}}
    elif place == "invoke-handler":
        t["actions"] = list(a_cfg)
    cfg = {"id": "m", "initial": "a", "context": {}, "states": {"a": a_state, "b": b_state, "c": {}}}
    # ---- implementations, written in the other casing
    fns = {}
    for a in acts:
        if omit == "action" and a == acts[0]:
            continue
        fns[implname(a)] = (lambda name: (lambda i, c, e, ad: ran.append(("action", name))))(a)
    for g in guards:
        if omit == "guard" and g == guards[0]:
            continue
        fns[implname(g)] = (lambda name: (lambda c, e: (ran.append(("guard", name)), True)[1]))(g)
    for s in services:
        if omit == "service":
            continue
        fns[implname(s)] = (lambda name: (lambda i, c, e: (ran.append(("service", name)), 1)[1]))(s)
    for k, f in fns.items():
        f.__name__ = k
    kw = {}
    if case["source"] == "module":
        mod = types.ModuleType("gen_logic_mod")
        for k, f in fns.items():
            f.__module__ = mod.__name__
            setattr(mod, k, f)
        kw["logic_modules"] = [mod]
    elif case["source"] == "provider":
        ns = {k: (lambda f: (lambda self, *a: f(*a)))(f) for k, f in fns.items()}
        for k in ns:
            ns[k].__name__ = k
        kw["logic_providers"] = [type("Provider", (), ns)()]
    else:
        def wrap(f, arity):
            if arity == 2:
                return lambda self, context, event: f(context, event)
            if arity == 3:
                return lambda self, interpreter, context, event: f(interpreter, context, event)
            return lambda self, interpreter, context, event, action_def: f(interpreter, context, event, action_def)

        mkind = case.get("method_kind", "instance")
        if mkind == "static":
            def wrap(f, arity):  # noqa: F811
                if arity == 2:
                    return staticmethod(lambda context, event: f(context, event))
                if arity == 3:
                    return staticmethod(lambda interpreter, context, event: f(interpreter, context, event))
                return staticmethod(lambda interpreter, context, event, action_def: f(interpreter, context, event, action_def))
        ns = {}
        for a in acts:
            if implname(a) in fns:
                ns[implname(a)] = wrap(fns[implname(a)], 4)
        for g in guards:
            if implname(g) in fns:
                ns[implname(g)] = wrap(fns[implname(g)], 2)
        for s in services:
            if implname(s) in fns:
                ns[implname(s)] = wrap(fns[implname(s)], 3)
        if mkind == "inherited":    # declared on a base class of the class that is instantiated
            kw["logic"] = type("GenLogic", (type("GenLogicBase", (MachineLogic,), ns),), {})()
        elif mkind == "mixin":      # declared on a plain mixin next to MachineLogic
            kw["logic"] = type("GenLogic", (type("GenLogicMixin", (), ns), MachineLogic), {})()
        else:
            kw["logic"] = type("GenLogic", (MachineLogic,), ns)()
    builtin_names = {"log", "assign"}
    is_builtin_act = lambda n: n in builtin_names  # noqa
    shape = f"{case['source']}|{place}" + (f"|{case.get('method_kind')}-methods" if case["source"] == "subclass" and case.get("method_kind", "instance") != "instance" else "")
    other_casing = case["config_casing"] != case["impl_casing"]
    res.nontrivial = other_casing or any(a in builtin_names for a in acts) or "stateIn" in guards
    # the MachineLogic-subclass style registers methods under their own names only
    try:
        m = create_machine(cfg, **kw)
    except ImplementationMissingError as e:
        missing_expected = omit is not None and (
            (omit == "action" and not is_builtin_act(acts[0])) or (omit == "guard" and bool(guards) and guards[0] != "stateIn")
            or (omit == "service" and bool(services)))
        if case["source"] == "subclass" and other_casing:
            res.classes.append("subclass-other-casing-rejected")
            return
        if not missing_expected:
            res.violate(f"discovery|present-implementation-not-found|{shape}|{'other-casing' if other_casing else 'same-casing'}",
                        {"msg": str(e)[:200], "case": {k: case[k] for k in ('actions', 'guards', 'services', 'config_casing', 'impl_casing')}})
        return
    except XStateMachineError as e:
        res.violate(f"discovery|creation-raised-{type(e).__name__}|{shape}", {"msg": str(e)[:200]})
        return
    except Exception as e:  # noqa
        res.violate(f"discovery|creation-raised-raw-{type(e).__name__}|{shape}", {"msg": str(e)[:200]})
        return
    if case["source"] == "subclass":
        # explicit logic object: missing names surface on first use, not at creation (not judged here)
        pass
    elif omit == "action" and not is_builtin_act(acts[0]) and place in ("transition", "entry", "always", "invoke-handler", "choose"):
        if place == "choose":
            res.violate(f"discovery|missing-action-not-detected-at-creation|{shape}", {"action": acts[0]})
        elif not (place == "invoke-handler" and not services and False):
            res.violate(f"discovery|missing-action-not-detected-at-creation|{shape}", {"action": acts[0]})
        return
    elif omit == "guard" and guards and guards[0] != "stateIn":
        res.violate(f"discovery|missing-guard-not-detected-at-creation|{shape}", {"guard": guards[0]})
        return
    elif omit == "service" and services:
        res.violate(f"discovery|missing-service-not-detected-at-creation|{shape}", {"service": services[0]})
        return
    # ---- run: every supplied implementation that is referenced must run
    it = SyncInterpreter(m)
    try:
        it.start()
        it.send(Event("GO"))
    except XStateMachineError as e:
        if omit is None and not (case["source"] == "subclass" and other_casing):
            res.violate(f"discovery|bound-machine-raised-{type(e).__name__}|{shape}", {"msg": str(e)[:200]})
        return
    finally:
        try:
            it.stop()
        except Exception:  # noqa
            pass
    if omit is not None or (case["source"] == "subclass" and other_casing):
        return
    for a in acts:
        if ("action", a) not in ran:
            kind = "builtin-shadow" if a in builtin_names else "plain"
            res.violate(f"discovery|user-action-did-not-run|{kind}|{shape}", {"action": a, "ran": ran[:6]})
            break
    if g_name and ("guard", g_name) not in ran:
        kind = "builtin-shadow" if g_name == "stateIn" else "plain"
        res.violate(f"discovery|user-guard-did-not-run|{kind}|{shape}", {"guard": g_name, "ran": ran[:6]})
    if services and ("service", services[0]) not in ran:
        res.violate(f"discovery|user-service-did-not-run|{shape}", {"service": services[0]})


def check_case(case) -> CaseResult:
    res = CaseResult()
    if case.get("kind") == "front":
        from ..recorder import StepBudgetExceeded

        try:
            check_front(case, res)
        except StepBudgetExceeded:
            res.inconclusive = "budget"
        res.sample = {"history": case["history"], "unique_names": case.get("unique")}
    else:
        check_disc(case, res)
        res.sample = {k: v for k, v in case.items()}
    seen = set()
    uniq = []
    for t, d_ in res.violations:
        if t not in seen:
            seen.add(t)
            uniq.append((t, d_))
    res.violations = uniq
    return res
