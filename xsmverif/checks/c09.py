"""C09 — invoked services: one start per activation, one outcome, no zombie results."""
from __future__ import annotations

import re

from hypothesis import strategies as st

from .. import drivers, findings
from ..gen import D
from ..render import Index, finalize
from ..runner import CaseResult
from ..tree import Tree

PROPERTY = "C09"
LEVEL = "exploration"
TECHNIQUE = "property-based testing of generated service scenarios under virtual time; laws over the service call log (each call tagged with its activation index)"
RULE = (
    "Generated machines: state `v` (atomic, compound or parallel; entered through its own id, a descendant target or its "
    "history child) invokes a service (plain callable on both engines; coroutine with a virtual-time "
    "duration and outcome return/raise/never on the async engine; a child machine that completes after a delay or at "
    "once) with declared input, with/without onDone/onError; events GO (leave v), BACK (return), RE (re-enter v), SLOW (an "
    "action sleeping in virtual time), PING; histories place sends, batches queued behind a slow action and stop() "
    "before/at/after the completion time. Every service call returns its own call index, so a completion can be "
    "attributed to the activation that started it. Oracle: exactly one call per entry of v, carrying the declared input; "
    "an activation still current at completion sees exactly one completion event, done with event.data == its own return "
    "value driving onDone / error with that exception driving onError; failure without onError -> status 'error' and the "
    "exception recorded; a completion of an exited activation triggers no transition even if v is active again (the data "
    "seen by onDone must be the CURRENT activation's call index); after exit/stop no task, thread or running child "
    "interpreter of that activation is alive. Non-trivial = v is re-entered or left while a call is in flight or its "
    "completion is queued; distinct = distinct (machine, history)."
)
ASSUMPTIONS = [
    "the harness identifies activations by counting entry markers of v and service calls by a per-service counter",
    "timing is virtual: completion times are exact",
]
EPS = 1e-6


def plan(tier):
    q = tier == "quick"
    out = [{"name": "main", "examples": 8000 if q else 300000}]
    for f in findings.open_for(PROPERTY):
        if f.exclude_profile:
            out.append({"name": "probe:" + f.id, "examples": 400 if q else 4000, "shards": 4})
    return out


@st.composite
def _case(draw, allow_requeue=True):
    d = D(draw)
    engine = draw(st.sampled_from(["sync", "async"]))
    kinds = ["sync", "sync", "machine"] + (["coro", "coro", "coro"] if engine == "async" else [])
    skind = d.pick(kinds)
    ms = d.pick([10, 40, 80])
    outcome = d.pick(["return", "return", "raise"] + (["never"] if skind == "coro" else []))
    has_done = d.chance(85)
    has_err = d.chance(60)
    services = {}
    if skind == "machine":
        r_ = d.int(0, 99)
        child_root = {"key": "kid", "kind": "compound", "initial": "w", "children": [
            {"key": "w", "kind": "atomic", "after": [[ms, [{"target": ["fin"], "actions": []}]]]} if r_ < 55 else
            {"key": "w", "kind": "atomic", "always": [{"target": ["fin"], "actions": [], "guard": {"k": "const", "val": True}}]} if r_ < 75 else
            {"key": "w", "kind": "atomic"},   # a child that never finishes: only exit / stop ends it
            {"key": "fin", "kind": "final"}]}
        child = {"id": "kid", "root": child_root, "context": {"c": 7}, "maxIterations": 30, "tables": {}, "services": {}}
        finalize(child)
        services["svc"] = {"k": "machine", "child": child}
        outcome = "return"
    else:
        services["svc"] = {"k": skind, "outcome": outcome, "ms": ms, "value": "$call"}
    inv = {"src": "svc", "id": "iv", "input": {"k": d.int(1, 9)}}
    if has_done:
        inv["onDone"] = [{"target": ["d"], "actions": []}]
    if has_err:
        inv["onError"] = [{"target": ["e"], "actions": []}]
    v = {"key": "v", "kind": "atomic", "invoke": [inv], "on": [
        ["GO", [{"target": ["x"], "actions": []}]],
        ["RE", [{"target": ["v"], "reenter": True, "actions": []}]],
        ["SLOW", [{"target": None, "actions": [{"k": "user", "name": "slow"}]}]],
        ["PING", [{"target": None, "actions": []}]]]}
    backs = ["BACK"]
    x_on = [["BACK", [{"target": ["v"], "actions": []}]], ["SLOW", [{"target": None, "actions": [{"k": "user", "name": "slow"}]}]]]
    shape_v = d.pick(["atomic", "atomic", "compound", "compound", "parallel"])
    if shape_v == "compound":
        # the invoking state is entered through its own id, through a descendant target, or through
        # its history child
        v["kind"] = "compound"
        v["initial"] = "v1"
        v["children"] = [{"key": "v1", "kind": "atomic", "on": [["IN", [{"target": ["v", "v2"], "actions": []}]]]},
                         {"key": "v2", "kind": "atomic", "on": [["IN", [{"target": ["v", "v1"], "actions": []}]]]}]
        x_on.append(["BACK2", [{"target": ["v", "v2"], "actions": []}]])
        backs += ["BACK2", "BACK2"]
        if d.chance(50):
            v["children"].append({"key": "h", "kind": "history", "hist": d.pick(["shallow", "deep"])})
            x_on.append(["BACKH", [{"target": ["v", "h"], "actions": []}]])
            backs += ["BACKH"]
    elif shape_v == "parallel":
        # restoring history re-enters several leaves whose paths all run through the invoking state
        v["kind"] = "parallel"
        v["children"] = [
            {"key": "r1", "kind": "compound", "initial": "a", "children": [
                {"key": "a", "kind": "atomic", "on": [["IN", [{"target": ["v", "r1", "b"], "actions": []}]]]}, {"key": "b", "kind": "atomic"}]},
            {"key": "r2", "kind": "compound", "initial": "c", "children": [
                {"key": "c", "kind": "atomic", "on": [["IN", [{"target": ["v", "r2", "d"], "actions": []}]]]}, {"key": "d", "kind": "atomic"}]},
            {"key": "h", "kind": "history", "hist": d.pick(["shallow", "deep", "deep"])}]
        x_on.append(["BACKH", [{"target": ["v", "h"], "actions": []}]])
        x_on.append(["BACK2", [{"target": ["v", "r2", "d"], "actions": []}]])
        backs += ["BACKH", "BACKH", "BACK2"]
    x = {"key": "x", "kind": "atomic", "on": x_on}
    dd = {"key": "d", "kind": "atomic", "on": [["BACK", [{"target": ["v"], "actions": []}]]]}
    ee = {"key": "e", "kind": "atomic", "on": [["BACK", [{"target": ["v"], "actions": []}]]]}
    start_in = d.pick(["v", "x"])
    root = {"key": "m", "kind": "compound", "initial": start_in, "children": [v, x, dd, ee]}
    spec = {"id": "m", "root": root, "context": {"n": 0}, "maxIterations": 50, "tables": {}, "services": services,
            "impls": {"slow": {"k": "slow", "ms": d.pick([5, 30, 100])}}}
    finalize(spec)
    grid = sorted({1, 5, ms - 1, ms, ms + 1, ms // 2, 2 * ms})
    hist = []
    seq = [0]

    def send(t):
        if t == "BACK":
            t = d.pick(backs)
        elif t == "PING" and shape_v != "atomic" and d.chance(50):
            t = "IN"
        hist.append(["send", t, seq[0]])
        seq[0] += 1

    if start_in == "x":
        send("BACK")
    for _ in range(d.int(1, 4)):
        shape = d.pick(["leave-in-flight", "reenter-in-flight", "complete", "slow-overlap", "noise", "requeue", "stop", "quick-reenter"])
        if shape == "quick-reenter":
            # leave and come back at once (no time, or 1 ms, in between), then let time pass: whatever
            # belonged to the first activation must not take the second one's service down with it
            send("GO")
            if d.chance(50):
                hist.append(["advance", 1])
            send("BACK")
            hist.append(["advance", d.pick([5, 15, 30])])
            if d.chance(60):
                send("GO")
                hist.append(["advance", d.pick([15, 30])])
            continue
        if shape == "leave-in-flight":
            hist.append(["advance", d.pick([1, ms // 2, ms - 1])])
            send("GO")
            hist.append(["advance", d.pick([1, ms, 2 * ms])])
            send("BACK")
        elif shape == "reenter-in-flight":
            hist.append(["advance", d.pick([1, ms // 2, ms - 1])])
            send("RE")
            if d.chance(50):
                send("RE")
            hist.append(["advance", d.pick([ms - 1, ms, ms + 1])])
        elif shape == "complete":
            hist.append(["advance", d.pick([ms, ms + 1, 2 * ms])])
            send("BACK")
        elif shape == "slow-overlap":
            send("SLOW")
            send(d.pick(["GO", "RE", "PING"]))
            hist.append(["advance", d.pick(grid)])
        elif shape == "noise":
            for _ in range(d.int(1, 3)):
                if d.chance(50):
                    hist.append(["advance", d.pick(grid)])
                else:
                    send(d.pick(["GO", "BACK", "RE", "SLOW", "PING"]))
        elif shape == "requeue" and allow_requeue:
            k = d.int(2, 3)
            first = d.pick(["SLOW", "RE", "BACK"])
            hist.append(["batch", [[first, seq[0]]] + [[d.pick(["GO", "BACK", "RE", "PING"]), seq[0] + 1 + j] for j in range(k)]])
            seq[0] += k + 1
        elif shape == "stop" and d.chance(40):
            hist.append(["advance", d.pick([1, ms // 2])])
            hist.append(["stop"])
            hist.append(["advance", 200])
            break
    hist.append(["advance", d.pick([100, 300])])
    return {"spec": spec, "history": hist, "engine": engine, "skind": skind}


def strategy(tier, campaign):
    opens = [f for f in findings.open_for(PROPERTY) if f.exclude_profile]
    excl = any(f.exclude_profile.get("requeue") is False for f in opens)
    return _case(allow_requeue=(campaign != "main") or not excl)


_CALL = re.compile(r"call (\d+)")


def check_case(case) -> CaseResult:
    res = CaseResult()
    spec, history, engine, skind = case["spec"], case["history"], case["engine"], case["skind"]
    tree = Tree(spec)
    idx = Index(spec)
    run = drivers.ENGINES[engine](spec, history, {"budget": 8000})
    res.sample = {"engine": engine, "service": spec["services"]["svc"] if skind != "machine" else "child machine", "history": history}
    if run.create_exc or run.aborted:
        res.inconclusive = run.aborted or ("create:" + str(run.create_exc))
        return res
    inv = next(s for s in spec["root"]["children"] if s["key"] == "v")["invoke"][0]
    want_input = repr(inv["input"])
    has_err = bool(inv.get("onError"))
    has_done = bool(inv.get("onDone"))
    done_tid = next((t.tid for t in idx.trans.values() if t.family == "invDone"), None)
    err_tid = next((t.tid for t in idx.trans.values() if t.family == "invError"), None)
    log = [e for o in run.steps for e in o.log]
    activation = 0          # number of entries of v so far
    calls_for = {}          # activation -> [call indices]
    active = False
    completions_taken = {}  # activation -> count of onDone/onError transitions taken
    nontrivial = False
    inflight = set()        # call indices started and not yet completed/consumed
    cur_recv = None
    stop_seen = False
    span = {}               # activation -> [t_in, t_out]
    for e in log:
        if e[0] == "life" and e[1] == "stop":
            stop_seen = True
        if e[0] == "act":
            if e[1] == "en:m.v":
                activation += 1
                active = True
                span[activation] = [e[5], None]
                if inflight:
                    nontrivial = True
            elif e[1] == "ex:m.v":
                active = False
                if activation in span:
                    span[activation][1] = e[5]
                if inflight:
                    nontrivial = True
            elif e[1] in (done_tid, err_tid):
                fam = "done" if e[1] == done_tid else "error"
                if skind != "machine":
                    data = e[4]
                    k = None
                    if isinstance(data, dict) and "call" in data:
                        k = data["call"]
                    elif isinstance(data, str):
                        m = _CALL.search(data)
                        k = int(m.group(1)) if m else None
                    mine = calls_for.get(activation, [])
                    if k is None:
                        res.violate(f"{engine}|completion-data-wrong|{fam}|{skind}", {"data": data})
                    elif k not in mine:
                        res.violate(f"{engine}|stale-completion-drove-new-activation|{fam}|{skind}",
                                    {"engine": engine, "activation": activation, "calls_of_this_activation": mine, "data_call": k})
                    want_fam = spec["services"]["svc"]["outcome"]
                    if (want_fam == "return") != (fam == "done"):
                        res.violate(f"{engine}|wrong-handler-for-outcome|{skind}", {"outcome": want_fam, "handler": fam})
                completions_taken[activation] = completions_taken.get(activation, 0) + 1
                if completions_taken[activation] > 1:
                    res.violate(f"{engine}|two-completions-for-one-activation|{skind}", {"activation": activation})
        elif e[0] == "svc" and e[1] == "call":
            k = e[5] if len(e) > 5 else None
            if stop_seen:
                res.violate(f"{engine}|service-started-after-stop|{skind}", {"call": k})
            calls_for.setdefault(activation, []).append(k)
            inflight.add(k)
            if e[3] != want_input:
                res.violate(f"{engine}|service-input-wrong|{skind}", {"got": e[3], "want": want_input})
            if not active:
                res.violate(f"{engine}|service-started-while-state-inactive|{skind}", {"call": k})
        elif e[0] == "svc" and e[1] in ("finish", "cancelled"):
            inflight.discard(e[5] if len(e) > 5 else None)
            if e[1] == "cancelled":
                nontrivial = True  # the invoking state was left / re-entered / stopped mid-call
        elif e[0] == "recv":
            cur_recv = e
            if e[1].startswith(("done.invoke.", "error.platform.")):
                inflight.clear() if skind == "sync" else None
    if skind != "machine":
        for a in range(1, activation + 1):
            n = len(calls_for.get(a, []))
            t_in, t_out = span.get(a, [0, None])
            # the async engine starts the service from its own task one loop iteration after the
            # entry; an activation that ends in the same instant may legitimately never reach the call
            instant = t_out is not None and t_out - t_in < EPS
            if n > 1 or (n == 0 and not (engine == "async" and instant) and not stop_seen):
                res.violate(f"{engine}|service-started-{n}-times-for-one-entry|{skind}", {"activation": a, "calls": calls_for.get(a)})
        if calls_for.get(0):
            res.violate(f"{engine}|service-started-before-entry|{skind}", {"calls": calls_for[0]})
    # unhandled failure -> error status with the exception recorded
    last = run.steps[-1]
    if skind != "machine" and spec["services"]["svc"]["outcome"] == "raise" and not has_err:
        # did a failing call complete while its activation was current and the machine running?
        statuses = [o.status for o in run.steps]
        if "error" in statuses:
            o = next(o for o in run.steps if o.status == "error")
            if not o.error or "InjectedFault" not in o.error:
                res.violate(f"{engine}|error-status-without-exception|{skind}", {"error": o.error})
        else:
            failed_while_current = False
            if skind == "sync" and any(calls_for.get(a) for a in calls_for) and not stop_seen:
                failed_while_current = True
            if failed_while_current and "stopped" not in statuses[:-1]:
                res.violate(f"{engine}|unhandled-service-failure-not-reported|{skind}", {"statuses": statuses[-3:]})
    # nothing survives exit/stop
    if engine == "async" and run.census_after_stop:
        res.violate(f"async|tasks-alive-after-stop|{skind}", {"tasks": run.census_after_stop[:5]})
    if engine == "sync" and run.sched_live:
        res.violate(f"sync|threads-alive-after-stop|{skind}", {"threads": [n.split("::")[0][:30] for n in run.sched_live][:5]})
    if run.thread_excs:
        res.violate(f"{engine}|exception-in-service-thread|{skind}", {"excs": run.thread_excs[:3]})
    # a running child interpreter must not outlive the invoking state's exit
    if skind == "machine":
        for k, o in enumerate(run.steps):
            if o.extra.get("actors_running") and "m.v" not in o.cfg and o.status in ("running", "stopped", "done"):
                res.violate(f"{engine}|child-interpreter-alive-after-exit|machine|at-quiescence",
                            {"step": k, "op": o.op, "cfg": sorted(o.cfg), "running": [x.split(":")[1] for x in o.extra["actors_running"]]})
                break
    it = run.interp
    if skind == "machine" and it is not None:
        alive = [a.id for a in getattr(it, "_actors", {}).values() if a.status == "running"]
        if alive and (not active or last.status == "stopped"):
            res.violate(f"{engine}|child-interpreter-alive-after-exit|machine", {"actors": [x.split(":")[1] for x in alive]})
    res.nontrivial = nontrivial
    seen = set()
    uniq = []
    for t, d_ in res.violations:
        if t not in seen:
            seen.add(t)
            uniq.append((t, d_))
    res.violations = uniq
    return res
