"""C12 — snapshots are faithful, isolated resume points (crash-point enumeration)."""
from __future__ import annotations

import copy
import json

from hypothesis import strategies as st

from .. import drivers, findings, gen
from ..runner import CaseResult, case_fp
from ..tree import Tree

PROPERTY = "C12"
LEVEL = "fault_enumeration"
TECHNIQUE = "crash-point enumeration inside property-based testing: for each generated (machine, history) every prefix length k is a crash/resume point; the resumed run is compared with the uninterrupted twin (bisimulation by differential); corrupt snapshots by class enumeration"
LEVEL_TEXT = ("every cut point k in [0..n] of every generated history is exercised (not sampled), plus a second save/restore "
              "cycle at a drawn later point; corrupted snapshots are enumerated by class for each case")
RULE = (
    "Generated machines (hierarchy, parallel regions, shallow/deep history, final states incl. top-level, table and "
    "context guards, assign with JSON-valued context incl. nested lists, always, onDone, raise; no after/invoke because "
    "pending timers and in-flight services are documented as not restored) x histories of n<=10 events. For EVERY k in "
    "[0,n]: run k events, get_snapshot(), discard the interpreter, from_snapshot() into a fresh interpreter over a freshly "
    "built machine (async: start() to resume), continue with the remaining events; every later observation "
    "(configuration, context, status, output, error, remembered history, executed marker actions) must equal the "
    "uninterrupted run's. Also: the snapshot parses as JSON; a dict taken with get_persisted_snapshot() at k is unchanged "
    "after the original keeps running; re-snapshotting the restored interpreter reproduces the snapshot; a second "
    "restore later in the run behaves the same. Campaign actors: parent spawning children (explicit id / auto id / "
    "systemId) that receive messages; restored hierarchy must keep child ids (modulo uuid), systemId registrations and "
    "child state. Campaign corrupt: truncation, non-object JSON, unknown state id, missing key, wrong types -> must raise "
    "an XStateMachineError subclass. Non-trivial = a cut after >=1 state-changing event in a machine with history or "
    "parallel states, followed by >=1 state-changing event; distinct = distinct (spec, history, k)."
)
ASSUMPTIONS = [
    "guards driven by the harness epoch keep counting across the restore (the harness, not the snapshot, owns them); "
    "context-reading guards exercise the restored context",
    "timers and in-flight services are outside the claim, so the machines under test declare none",
]
BASE = dict(after=False, invoke=False, guards="ctx", p_guard=35, always=True, ondone=True, nested_builtins=False,
            p_handler=40, max_iterations=30, history=True, final_under_root=True, output=True)
BASE["raise"] = True


def plan(tier):
    q = tier == "quick"
    return [{"name": "main", "examples": 1600 if q else 30000}, {"name": "corrupt", "examples": 600 if q else 8000},
            {"name": "actors", "examples": 600 if q else 6000}]


@st.composite
def _main_case(draw):
    prof = gen.profile(**BASE)
    spec = draw(gen.machine_specs(prof))
    d = gen.D(draw)
    # JSON-valued context: nested list/dict that assigns extend
    spec["context"] = {"n": 0, "log": [], "cfg": {"deep": {"k": [1, 2]}}}
    from ..render import walk_states, state_transitions

    for sid, s in walk_states(spec):
        for fam, key, i, t in state_transitions(s):
            if not t.get("null") and d.chance(15):
                t.setdefault("actions", []).append({"k": "assign", "ops": [["app", "log", t.get("mk", "?")]]})
    hist = draw(gen.histories(prof, max_len=10))
    second = draw(st.integers(0, 10))
    return {"kind": "main", "spec": spec, "history": hist, "second": second}


def strategy(tier, campaign):
    if campaign == "main":
        return _main_case()
    if campaign == "corrupt":
        return st.fixed_dictionaries({"kind": st.just("corrupt"), "spec": gen.machine_specs(gen.profile(**BASE)),
                                      "history": gen.histories(gen.profile(**BASE), max_len=5),
                                      "engine": st.sampled_from(["sync", "async"])})
    return st.fixed_dictionaries({
        "kind": st.just("actors"),
        "engine": st.sampled_from(["async", "sync"]),
        "ops": st.lists(st.sampled_from(["SPAWN_ID", "SPAWN_AUTO", "SPAWN_SYS", "SPAWN_SYS", "TELL_ID", "TELL_SYS", "TELL_KEY", "TELL_SVC", "NOOP",
                                         "GRAND_K1", "GRAND_K1", "FIN", "DIRECT_SYS", "DIRECT_SYS", "DIRECT_DEEP"]), min_size=2, max_size=9),
        "cut": st.integers(1, 9),
    })


def _view(o):
    acts = [(e[1], e[2], e[3]) for e in o.log if e[0] == "act"]
    return {"cfg": sorted(o.cfg), "ctx": o.ctx, "status": o.status, "output": o.output, "error": o.error,
            "hist": {k: sorted(v) for k, v in (o.hist or {}).items()}, "acts": acts, "exc": o.exc}


def check_main(case, res: CaseResult):
    spec, history = case["spec"], case["history"]
    tree = Tree(spec)
    n = len(history)
    keys = []
    for engine in ("sync", "async"):
        base_ops = [["psnap"]]
        for ev in history:
            base_ops += [ev, ["psnap"]]
        base = drivers.ENGINES[engine](spec, base_ops)
        if base.create_exc or base.aborted:
            res.inconclusive = base.aborted or "create-exc"
            return
        # isolation: every dict handed out by get_persisted_snapshot() is unchanged by later execution
        for o in base.steps:
            if o.op[0] == "psnap" and o.extra.get("psnap") != o.extra.get("psnap_copy"):
                fld = next((f for f in o.extra["psnap_copy"] if o.extra["psnap"].get(f) != o.extra["psnap_copy"].get(f)), "?")
                res.violate(f"{engine}|persisted-snapshot-mutated-by-later-execution|{fld}", {"field": fld})
                break
        base.steps = [o for o in base.steps if o.op[0] != "psnap"]
        from .c05 import _cut

        if _cut(base, spec.get("maxIterations") or 1000):
            res.inconclusive = "cut"
            return
        bviews = [_view(o) for o in base.steps]  # index 0 = start, i = after event i
        changed = [i for i in range(1, len(base.steps)) if base.steps[i].cfg != base.steps[i - 1].cfg]
        for k in range(0, n + 1):
            ops = history[:k] + [["psnap"], ["restore"]] + history[k:]
            s2 = case["second"] % (n + 1)
            if s2 > k:
                # a second save/restore cycle later in the run
                j = (s2 - k) + k + 2
                ops = ops[:j] + [["restore"]] + ops[j:]
            run = drivers.ENGINES[engine](spec, ops)
            res.extra_evals += 1
            if run.aborted:
                res.inconclusive = run.aborted
                continue
            steps = [o for o in run.steps]
            # locate observations: ops index -> step index (+1 for start)
            psnap = steps[k + 1]
            rest = steps[k + 2]
            if rest.exc:
                res.violate(f"{engine}|restore-raised|{rest.exc}", {"k": k, "msg": rest.extra.get("exc_msg")})
                continue
            snap_s = rest.extra.get("snap")
            try:
                snap = json.loads(snap_s)
            except Exception as e:  # noqa
                res.violate(f"{engine}|snapshot-not-json", {"k": k, "err": str(e)[:100]})
                continue
            # isolation: dict taken at k is unchanged after the original kept running (here: after restore+continue
            # the original was stopped; compare with its deep copy taken at the same time)
            if psnap.extra.get("psnap") != psnap.extra.get("psnap_copy"):
                res.violate(f"{engine}|persisted-snapshot-mutated-later", {"k": k})
            # re-snapshot reproduces the snapshot
            try:
                re_s = json.loads(rest.extra.get("resnap"))
                if re_s != snap:
                    fld = next((f for f in snap if snap.get(f) != re_s.get(f)), "?")
                    res.violate(f"{engine}|resnapshot-differs|{fld}", {"k": k, "snap": snap.get(fld), "resnap": re_s.get(fld)})
            except Exception as e:  # noqa
                res.violate(f"{engine}|resnapshot-failed", {"k": k, "err": str(e)[:100]})
            # observation right after restore == observation at k (no actions run by restoring)
            vr = _view(rest)
            vb = dict(bviews[k])
            vb["acts"] = []
            vr_cmp = dict(vr)
            for fld in ("cfg", "ctx", "status", "output", "error", "hist", "acts"):
                if vr_cmp[fld] != vb[fld]:
                    if fld == "error" and vb[fld] and vr_cmp[fld] and vb[fld].split(":", 1)[-1] == vr_cmp[fld].split(":", 1)[-1]:
                        continue  # exception type cannot survive JSON; the message must
                    res.violate(f"{engine}|restored-state-differs|{fld}", {"k": k, "original": vb[fld], "restored": vr_cmp[fld]})
                    break
            # continuation equality
            cont = [o for o in steps[k + 3:] if o.op[0] != "restore"]
            for i, o in enumerate(cont):
                vb = bviews[k + 1 + i] if k + 1 + i < len(bviews) else None
                if vb is None:
                    break
                vo = _view(o)
                bad = None
                for fld in ("cfg", "ctx", "status", "output", "hist", "acts", "exc"):
                    if vo[fld] != vb[fld]:
                        bad = fld
                        break
                if bad is None and vo["error"] != vb["error"]:
                    if not (vo["error"] and vb["error"] and vo["error"].split(":", 1)[-1] == vb["error"].split(":", 1)[-1]):
                        bad = "error"
                if bad:
                    cause = "history" if any(tree[t].kind == "history" for t in tree.nodes) and bad in ("cfg", "acts", "hist") else "plain"
                    res.violate(f"{engine}|continuation-differs|{bad}|{cause}",
                                {"k": k, "event_index": k + i, "op": o.op, "original": vb[bad], "restored": vo[bad]})
                    break
            if any(c <= k for c in changed) and any(c > k for c in changed) and (tree.has_kind("history") or tree.has_kind("parallel")):
                keys.append(case_fp([case_fp(spec), history, k, engine]))
    res.nontrivial = bool(keys)
    res.nontrivial_keys = keys


# ----------------------------------------------------------------------------- corrupt snapshots
def _corruptions(snap: dict):
    s = json.dumps(snap)
    yield "truncated", s[: max(1, len(s) // 2)], True
    yield "truncated-1", s[:-1], True
    for lit in ("[]", "3", "null", '"x"', "true"):
        yield "non-object:" + lit, lit, True
    yield "empty-object", "{}", True
    for key in ("status", "context"):
        d = copy.deepcopy(snap)
        d.pop(key, None)
        yield "missing-" + key, json.dumps(d), True
    d = copy.deepcopy(snap)
    d.pop("configuration", None)
    d.pop("state_ids", None)
    yield "missing-configuration-and-state_ids", json.dumps(d), True
    d = copy.deepcopy(snap)
    d["configuration"] = list(d.get("configuration") or []) + ["m.no_such_state"]
    yield "unknown-state", json.dumps(d), True
    d = copy.deepcopy(snap)
    d["configuration"] = ["other_machine.a"]
    yield "foreign-state", json.dumps(d), True
    for val, nm in ((True, "true"), ([1], "[1]"), ("abc", "str"), ({"a": 1}, "dict"), (5, "int")):
        d = copy.deepcopy(snap)
        d["configuration"] = val
        yield "configuration-wrong-type:" + nm, json.dumps(d), True
    for val, nm in (([], "list"), ({"m": 5}, "int-value"), ("x", "str"), ({"m": [3]}, "int-item")):
        d = copy.deepcopy(snap)
        d["history"] = val
        yield "history-wrong-type:" + nm, json.dumps(d), False
    for val, nm in (([1], "list"), ("x", "str"), ({"a": 1}, "int-record")):
        d = copy.deepcopy(snap)
        d["actors"] = val
        yield "actors-wrong-type:" + nm, json.dumps(d), False
    for val, nm in ((7, "int"), (None, "null"), ([], "list")):
        d = copy.deepcopy(snap)
        d["status"] = val
        yield "status-wrong-type:" + nm, json.dumps(d), False
    d = copy.deepcopy(snap)
    d["system"] = [1]
    yield "system-wrong-type:list", json.dumps(d), False


def check_corrupt(case, res: CaseResult):
    from xstate_statemachine import Interpreter, SyncInterpreter, create_machine
    from xstate_statemachine.exceptions import XStateMachineError

    from ..recorder import Recorder
    from ..render import build

    spec, history, engine = case["spec"], case["history"], case["engine"]
    run = drivers.run_sync(spec, history + [["snap"]], {"vthreads": False})
    if run.create_exc or run.aborted or not run.steps or "snap" not in run.steps[-1].extra:
        res.inconclusive = "no-snapshot"
        return
    snap = json.loads(run.steps[-1].extra["snap"])
    rec = Recorder()
    cfg, logic = build(spec, rec)
    machine = create_machine(cfg, logic=logic)
    cls = SyncInterpreter if engine == "sync" else Interpreter
    keys = []
    for name, text, must_reject in _corruptions(snap):
        res.extra_evals += 1
        keys.append(name)
        try:
            if engine == "async":
                import asyncio

                from ..vloop import run_virtual

                async def main(loop):
                    return cls.from_snapshot(text, machine)

                run_virtual(main)
            else:
                cls.from_snapshot(text, machine)
            if must_reject:
                res.violate(f"{engine}|corrupt-snapshot-accepted|{name.split(':')[0]}", {"corruption": name})
            else:
                res.classes.append("accepted-unspecified:" + name.split(":")[0])
        except XStateMachineError:
            res.classes.append("rejected:" + name.split(":")[0])
        except Exception as e:  # noqa
            res.violate(f"{engine}|corrupt-snapshot-raw-exception|{name.split(':')[0]}|{type(e).__name__}",
                        {"corruption": name, "exc": type(e).__name__, "msg": str(e)[:160]})
    res.nontrivial = True
    res.nontrivial_keys = [case_fp([case_fp(spec), history, k]) for k in keys]


# ----------------------------------------------------------------------------- actors
def _actor_machines(rec_log):
    from xstate_statemachine import MachineLogic, create_machine

    def kid_log(i, c, e, a):
        c["got"] = list(c.get("got") or []) + [e.payload.get("seq")]

    grand = create_machine({"id": "grand", "initial": "a", "context": {"got": []}, "states": {
        "a": {"on": {"PING": {"target": "b", "actions": ["kid_log"]}}},
        "b": {"on": {"PING": {"target": "a", "actions": ["kid_log"]}}}}}, logic=MachineLogic(actions={"kid_log": kid_log}))
    spawn_g = {"actions": [{"type": "xstate.spawnChild", "params": {"src": "grand", "id": "g", "systemId": "deep"}}]}
    kid = create_machine({"id": "kid", "initial": "a", "context": {"got": []}, "on": {"GRAND": spawn_g}, "states": {
        "a": {"on": {"PING": {"target": "b", "actions": ["kid_log"]}}},
        "b": {"on": {"PING": {"target": "a", "actions": ["kid_log"]}}}}}, logic=MachineLogic(actions={"kid_log": kid_log}, services={"grand": grand}))
    parent_cfg = {"id": "par", "initial": "on", "context": {"n": 0}, "states": {"on": {"on": {
        "SPAWN_ID": {"actions": [{"type": "xstate.spawnChild", "params": {"src": "kid", "id": "k1"}}]},
        "SPAWN_AUTO": {"actions": [{"type": "spawn_kid"}]},
        "SPAWN_SYS": {"actions": [{"type": "xstate.spawnChild", "params": {"src": "kid", "id": "k2", "systemId": "sysk"}}]},
        "TELL_ID": {"actions": [{"type": "xstate.sendTo", "params": {"to": "par:k1", "event": lambda a: {"type": "PING", "seq": a["event"].payload.get("seq")}}}]},
        "TELL_SYS": {"actions": [{"type": "xstate.sendTo", "params": {"to": "sysk", "event": lambda a: {"type": "PING", "seq": a["event"].payload.get("seq")}}}]},
        "TELL_KEY": {"actions": [{"type": "xstate.sendTo", "params": {"to": "k1", "event": lambda a: {"type": "PING", "seq": a["event"].payload.get("seq")}}}]},
        "TELL_SVC": {"actions": [{"type": "xstate.sendTo", "params": {"to": "kid", "event": lambda a: {"type": "PING", "seq": a["event"].payload.get("seq")}}}]},
        "NOOP": {"actions": []},
        "GRAND_K1": {"actions": [{"type": "xstate.sendTo", "params": {"to": "par:k1", "event": {"type": "GRAND"}}}]},
        "FIN": "fin",
    }}, "fin": {"type": "final"}}}
    parent = create_machine(parent_cfg, logic=MachineLogic(services={"kid": kid}))
    return parent


def _norm_actor_id(aid: str):
    parts = aid.split(":")
    if len(parts) == 3 and len(parts[2]) >= 30:
        return ":".join(parts[:2]) + ":<uuid>"
    return aid


def _actor_view(interp):
    snap = interp.get_persisted_snapshot()

    def norm(s):
        return {
            "status": s["status"], "context": s["context"], "configuration": s["configuration"],
            "actors": sorted(((_norm_actor_id(k), norm(v["snapshot"])["context"], norm(v["snapshot"])["configuration"], v["src"],
                               norm(v["snapshot"])["status"], norm(v["snapshot"])["actors"]) for k, v in s["actors"].items()),
                             key=lambda t: json.dumps(t, sort_keys=True, default=repr)),
            "system": sorted((k, _norm_actor_id(v)) for k, v in s["system"].items()),
        }

    live_sys = sorted((k, _norm_actor_id(v.id)) for k, v in interp.system.get_all().items())
    return {"snap": norm(snap), "system": live_sys}


def _all_actors(it):
    out = []
    for a in list(getattr(it, "_actors", {}).values()):
        out.append(a)
        out.extend(_all_actors(a))
    return out


def _run_actors(engine, ops, cut):
    """-> list of views after each op; cut=None for the uninterrupted run."""
    from xstate_statemachine import Event, Interpreter, SyncInterpreter

    views = []
    if engine == "async":
        import asyncio

        from ..vloop import run_virtual

        async def main(loop):
            it = await Interpreter(_actor_machines(None)).start()
            for i, op in enumerate(ops):
                if cut is not None and i == cut:
                    s = it.get_snapshot()
                    await it.stop()
                    it = Interpreter.from_snapshot(s, _actor_machines(None))
                    await it.start()
                if op in ("DIRECT_SYS", "DIRECT_DEEP"):
                    # the continuation talks to a registered actor directly (the parent may be done)
                    a = it.system.get("sysk" if op == "DIRECT_SYS" else "deep")
                    if a is not None:
                        await a.send(Event("PING", {"seq": i}))
                else:
                    await it.send(Event(op, {"seq": i}))
                for _ in range(3):
                    for _ in range(20):
                        await asyncio.sleep(0)
                        if not loop._ready:
                            break
                    if getattr(it, "_event_loop_task", None) is not None and not it._event_loop_task.done():
                        await it._event_queue.join()
                    for a in _all_actors(it):
                        if getattr(a, "_event_loop_task", None) is not None and not a._event_loop_task.done():
                            await a._event_queue.join()
                views.append(_actor_view(it))
            await it.stop()

        run_virtual(main)
    else:
        from .. import vthreads

        sched = vthreads.Sched()
        vthreads.install(sched)
        try:
            it = SyncInterpreter(_actor_machines(None)).start()
            for i, op in enumerate(ops):
                if cut is not None and i == cut:
                    s = it.get_snapshot()
                    it.stop()
                    sched.settle()
                    it = SyncInterpreter.from_snapshot(s, _actor_machines(None))
                if op in ("DIRECT_SYS", "DIRECT_DEEP"):
                    a = it.system.get("sysk" if op == "DIRECT_SYS" else "deep")
                    if a is not None:
                        a.send(Event("PING", {"seq": i}))
                else:
                    it.send(Event(op, {"seq": i}))
                sched.settle()
                views.append(_actor_view(it))
            it.stop()
            sched.settle()
        finally:
            sched.shutdown()
            vthreads.uninstall()
    return views


def check_actors(case, res: CaseResult):
    engine, ops = case["engine"], case["ops"]
    cut = case["cut"] % len(ops)
    if cut == 0:
        cut = 1 if len(ops) > 1 else 0
    try:
        base = _run_actors(engine, ops, None)
        rest = _run_actors(engine, ops, cut)
    except Exception as e:  # noqa
        res.violate(f"{engine}|actors-run-raised|{type(e).__name__}", {"msg": str(e)[:200], "ops": ops, "cut": cut})
        return
    res.extra_evals += 1
    spawned_before = any(o.startswith("SPAWN") for o in ops[:cut])
    told_after = any(o.startswith("TELL") for o in ops[cut:])
    res.nontrivial = spawned_before and told_after
    for i, (a, b) in enumerate(zip(base, rest)):
        if a != b:
            fld = "system" if a["system"] != b["system"] else next((f for f in a["snap"] if a["snap"][f] != b["snap"][f]), "?")
            how = ops[i].split("_")[0] + ("-sys" if "SYS" in "".join(ops[:i + 1]) else "")
            res.violate(f"{engine}|actors-continuation-differs|{fld}|{'after-cut' if i >= cut else 'before-cut'}",
                        {"op_index": i, "op": ops[i], "cut": cut, "ops": ops, "original": a["snap"].get(fld) if fld != "system" else a["system"],
                         "restored": b["snap"].get(fld) if fld != "system" else b["system"]})
            return


def check_case(case) -> CaseResult:
    res = CaseResult()
    kind = case.get("kind")
    if kind == "main":
        check_main(case, res)
        res.sample = {"history": case["history"], "cuts": list(range(len(case["history"]) + 1))}
    elif kind == "corrupt":
        check_corrupt(case, res)
        res.sample = {"engine": case["engine"], "history": case["history"], "corruption_classes": "see _corruptions()"}
    else:
        check_actors(case, res)
        res.sample = {"engine": case["engine"], "ops": case["ops"], "cut": case["cut"]}
    seen = set()
    uniq = []
    for t, d in res.violations:
        if t not in seen:
            seen.add(t)
            uniq.append((t, d))
    res.violations = uniq
    return res
