"""C16 — behaviour is deterministic (hash seeds, heap layouts, rebuilds)."""
from __future__ import annotations

import functools
import hashlib
import json
import os
import subprocess
import sys
import tempfile
import time

from hypothesis import strategies as st

from .. import drivers, findings, gen
from ..render import Index
from ..runner import CaseResult, case_fp
from ..tree import Tree

PROPERTY = "C16"
LEVEL = "exploration"
TECHNIQUE = "differential property-based testing: same case under several salted StateNode hash functions (heap layouts) and, in the thorough tier, in fresh processes under different PYTHONHASHSEED values; traces compared byte for byte"
RULE = (
    "Generated machines with parallel regions, deep/shallow history under parallel and compound parents, multi-region "
    "events, `always`, onDone, raise x histories of <=12 events. Each case is executed 4 times per engine (sync, async): "
    "unsalted, and with StateNode.__hash__ replaced by blake2(id+salt) for 3 drawn salts, i.e. 3 different iteration "
    "orders of every set of state nodes (what different object addresses would give); every run rebuilds the machine "
    "from the config. The serialised traces (per step: configuration, context, status, output, ordered list of executed "
    "marker actions with event type and payload seq, ordered list of fired transitions) must be identical. Thorough tier "
    "additionally re-executes generated cases in fresh subprocesses under 3 PYTHONHASHSEED values. Non-trivial = a run in "
    "which one transition exits or enters states of >=2 sibling regions, or restores deep history with >=2 leaves; "
    "distinct = distinct (spec, history) hash. A small subprocess differential (320 cases x 3 PYTHONHASHSEED values) also "
    "runs in the quick tier. Campaign actors-repeat: C15's actor command sequences are executed four times in one process; "
    "with the uuid part of generated actor ids stripped, mailboxes, statuses, registry and parent context must agree after "
    "every command (generated ids never decide who is selected)."
)
ASSUMPTIONS = [
    "a salted hash stands for a heap layout: set iteration order of StateNode objects is the only address-dependent "
    "behaviour the salt can reach; other sources of nondeterminism would only be seen through the subprocess runs",
    "generated ids (actor ids, timer keys) do not occur in the compared traces",
]
BASE = dict(after=False, invoke=False, guards="tab", p_guard=25, always=True, ondone=True, nested_builtins=False,
            p_handler=35, max_iterations=30, history=True, hist_under_parallel=True, two_markers=False)
BASE["raise"] = True


def _profiles():
    return findings.main_and_probe_profiles(PROPERTY, BASE)


def plan(tier):
    return [{"name": "main", "examples": 2000 if tier == "quick" else 60000},
            {"name": "actors-repeat", "examples": 250 if tier == "quick" else 6000, "shards": 8}]


def strategy(tier, campaign):
    if campaign == "actors-repeat":
        from . import c15

        def shape(c):
            cmds = list(c["cmds"])
            if len(cmds) % 2 == 0:
                # several auto-id children of one service, then an address that matches all of them
                cmds = [["SPAWN_AUTO"], ["SPAWN_AUTO"]] + cmds[:8] + [["SEND", "kid"], ["STOPC", "kid"], ["SEND", "kid"]]
            return dict(c, cmds=cmds, kind="actors-repeat")

        return c15.strategy(tier, "main").map(shape)
    main, probes = _profiles()
    prof = gen.profile(**main)
    return st.fixed_dictionaries({
        "spec": gen.machine_specs(prof),
        "history": gen.histories(prof, max_len=12),
        "salts": st.lists(st.integers(1, 10 ** 6), min_size=3, max_size=3, unique=True),
    })


# ----------------------------------------------------------------------------- salting
_ORIG = {}


def set_salt(salt):
    from xstate_statemachine.models import StateNode

    if "hash" not in _ORIG:
        _ORIG["hash"] = StateNode.__dict__.get("__hash__", None)
    if salt is None:
        if "__hash__" in StateNode.__dict__:
            try:
                del StateNode.__hash__
            except AttributeError:
                pass
        return
    cache = {}

    def _h(self, cache=cache, salt=str(salt)):
        k = self.id
        v = cache.get(k)
        if v is None:
            v = int.from_bytes(hashlib.blake2b((salt + "|" + k).encode(), digest_size=8).digest(), "little") & ((1 << 61) - 1)
            cache[k] = v
        return v

    StateNode.__hash__ = _h


def trace_of(run) -> str:
    out = []
    for o in run.steps:
        acts = [(e[1], e[2], e[3]) for e in o.log if e[0] == "act"]
        trans = [e[1] for e in o.log if e[0] == "trans"]
        out.append({"op": o.op, "cfg": sorted(o.cfg), "ctx": o.ctx, "status": o.status, "output": o.output,
                    "acts": acts, "trans": trans, "exc": o.exc})
    return json.dumps({"steps": out, "aborted": run.aborted, "create": run.create_exc}, sort_keys=True, default=repr)


def first_diff(a: str, b: str):
    ja, jb = json.loads(a), json.loads(b)
    for i, (x, y) in enumerate(zip(ja["steps"], jb["steps"])):
        if x != y:
            for k in x:
                if x[k] != y.get(k):
                    return {"step": i, "op": x["op"], "field": k, "a": x[k] if k != "acts" else _actdiff(x[k], y[k]), "b": None if k == "acts" else y.get(k)}
    return {"len": [len(ja["steps"]), len(jb["steps"])], "aborted": [ja["aborted"], jb["aborted"]]}


def _actdiff(a, b):
    for i, (x, y) in enumerate(zip(a, b)):
        if x != y:
            return {"index": i, "a": a[max(0, i - 2): i + 3], "b": b[max(0, i - 2): i + 3]}
    return {"len": [len(a), len(b)]}


def _nontrivial(tree: Tree, idx: Index, run) -> bool:
    for o in run.steps:
        buf_ex, buf_en = [], []
        for e in o.log:
            if e[0] == "act":
                if e[1] in idx.exit_marker:
                    buf_ex.append(idx.exit_marker[e[1]])
                elif e[1] in idx.entry_marker:
                    buf_en.append(idx.entry_marker[e[1]])
            elif e[0] in ("trans", "recv"):
                for group in (buf_ex, buf_en):
                    pars = {}
                    for s in group:
                        p = tree[s].parent
                        if p and tree[p].kind == "parallel":
                            pars.setdefault(p, set()).add(s)
                    if any(len(v) >= 2 for v in pars.values()):
                        return True
                buf_ex, buf_en = [], []
    return False


def _check_actors_repeat(case) -> CaseResult:
    """Generated identifiers (actor ids with a uuid) never influence selection: the same actor command
    sequence (C15's generic parent machine) is executed four times in this process; after every command
    the observable state - per actor: id with the uuid stripped, mailbox, status, children; the system
    registry; what the parent got back - must be the same in all four runs."""
    from . import c15

    res = CaseResult()
    res.sample = {"engine": case["engine"], "cmds": case["cmds"]}

    def norm_id(i):
        parts = i.split(":")
        return ":".join(parts[:2]) + ":<auto>" if len(parts) == 3 and len(parts[2]) > 20 else i

    def sig(obs):
        out = []
        for o in obs:
            # in the order the snapshot lists them (spawn order): *which* auto-id actor got a message matters
            actors = [(norm_id(a), json.dumps(v["inbox"]), v["status"], len(v["children"])) for a, v in o["actors"].items()]
            out.append((actors, sorted((k, norm_id(v)) for k, v in o["live_system"].items()), o["fromkid"]))
        return json.dumps(out, sort_keys=True, default=repr)

    try:
        sigs = []
        for _ in range(4):
            obs, _extra = c15.run(case)
            sigs.append(sig(obs))
            res.extra_evals += 1
    except Exception as e:  # noqa
        res.inconclusive = "run-raised:" + type(e).__name__
        return res
    res.extra_evals -= 1
    autos = sum(1 for c in case["cmds"] if c[0] == "SPAWN_AUTO")
    res.nontrivial = autos >= 2
    res.classes.append("actors-repeat")
    if len(set(sigs)) > 1:
        k = next(i for i in range(1, 4) if sigs[i] != sigs[0])
        a, b = json.loads(sigs[0]), json.loads(sigs[k])
        step = next((i for i, (x, y) in enumerate(zip(a, b)) if x != y), -1)
        res.violate(f"{case['engine']}|repeated-runs-differ|actors", {"step": step, "cmd": case["cmds"][step] if 0 <= step < len(case["cmds"]) else None,
                                                                     "run0": a[step] if step >= 0 else None, "run%d" % k: b[step] if step >= 0 else None})
    return res


def check_case(case) -> CaseResult:
    if case.get("kind") == "actors-repeat":
        return _check_actors_repeat(case)
    res = CaseResult()
    spec, history, salts = case["spec"], case["history"], case["salts"]
    tree = Tree(spec)
    idx = Index(spec)
    nt = False
    base_runs = {}
    try:
        for engine in ("sync", "async"):
            base = None
            for salt in [None] + list(salts):
                set_salt(salt)
                run = drivers.ENGINES[engine](spec, history)
                res.extra_evals += 1
                if run.aborted:
                    res.inconclusive = run.aborted
                    break
                tr = trace_of(run)
                if base is None:
                    base = tr
                    base_runs[engine] = run
                    nt = nt or _nontrivial(tree, idx, run)
                elif tr != base:
                    d = first_diff(base, tr)
                    what = d.get("field", "length")
                    res.violate(f"{engine}|trace-differs-under-hash-salt|{what}", {"engine": engine, "salt": salt, "diff": d})
                    break
    finally:
        set_salt(None)
    # ---- "... or which interpreter is used": the two engines' traces must agree as well
    if len(base_runs) == 2 and not res.violations and not res.inconclusive:
        from .c05 import _cut, _diff, _step_view

        rs, ra = base_runs["sync"], base_runs["async"]
        maxit = spec.get("maxIterations") or 1000
        if not (_cut(rs, maxit) or _cut(ra, maxit)):
            for i, (a, b) in enumerate(zip(rs.steps, ra.steps)):
                va, vb = _step_view(a), _step_view(b)
                if a.exc is not None and b.exc is None:
                    va["exc"] = vb["exc"] = None
                d = _diff(va, vb)
                if d:
                    res.violate(f"engines-disagree|{d[0]}", {"step": i, "op": a.op, "diff": d[1]})
                    break
    res.extra_evals -= 1
    res.nontrivial = nt
    res.sample = {"states": {n.id: n.kind for n in tree.nodes.values()}, "history": history, "salts": salts}
    return res


# ----------------------------------------------------------------------------- subprocess differential (thorough)
def _collect_cases(n, seed):
    from hypothesis import HealthCheck, Phase, given, settings
    import hypothesis

    cases = []

    def f(case):
        cases.append(case)

    t = given(strategy("thorough", "main"))(f)
    t = hypothesis.seed(seed)(t)
    t = settings(max_examples=n, database=None, deadline=None, suppress_health_check=list(HealthCheck),
                 phases=[Phase.generate])(t)
    t()
    return cases


def _child_main(path):
    cases = json.load(open(path))
    out = []
    for c in cases:
        hs = []
        for engine in ("sync", "async"):
            run = drivers.ENGINES[engine](c["spec"], c["history"])
            hs.append(hashlib.sha1(trace_of(run).encode()).hexdigest())
        out.append(hs)
    print("TRACES " + json.dumps(out))


def extra_run(tier, seed, jobs):
    # hash seeds are per process: sets of *strings* (ids, keys) only change their iteration order
    # in another process, which the salted StateNode hash cannot imitate - so a (small) subprocess
    # differential runs in the quick tier as well
    t0 = time.time()
    n = 2000 if tier == "thorough" else 320
    cases = _collect_cases(n, seed * 7919 + 13)
    tmp = tempfile.mkdtemp(prefix="xsm-c16-", dir=os.environ.get("TMPDIR", "/var/tmp"))
    viol = []
    try:
        chunks = [cases[i::jobs] for i in range(jobs)]
        results = {}
        procs = []
        for ci, chunk in enumerate(chunks):
            path = os.path.join(tmp, f"c{ci}.json")
            json.dump(chunk, open(path, "w"))
            for hs in ("0", "1", "4242"):
                env = dict(os.environ, PYTHONHASHSEED=hs)
                p = subprocess.Popen([sys.executable, "-m", "xsmverif.checks.c16", path], env=env, stdout=subprocess.PIPE,
                                     stderr=subprocess.DEVNULL, text=True)
                procs.append((ci, hs, p))
            # keep at most `jobs` processes alive
            while len([1 for _, _, p in procs if p.poll() is None]) >= jobs:
                time.sleep(0.05)
        for ci, hs, p in procs:
            out, _ = p.communicate(timeout=3600)
            line = [l for l in out.splitlines() if l.startswith("TRACES ")]
            results[(ci, hs)] = json.loads(line[0][7:]) if line else None
        n_cmp = 0
        for ci, chunk in enumerate(chunks):
            a = results.get((ci, "0"))
            for hs in ("1", "4242"):
                b = results.get((ci, hs))
                if a is None or b is None:
                    continue
                for k, (x, y) in enumerate(zip(a, b)):
                    n_cmp += 1
                    if x != y:
                        eng = "sync" if x[0] != y[0] else "async"
                        viol.append({"tag": f"{eng}|trace-differs-across-processes", "detail": {"PYTHONHASHSEED": ["0", hs]},
                                     "case": dict(chunk[k], subprocess=True)})
    finally:
        import shutil

        shutil.rmtree(tmp, ignore_errors=True)
    return {"evaluations": len(cases) * 3 * 2, "violations": viol[:5], "samples": [],
            "coverage": {"subprocess_differential": {"cases": len(cases), "hash_seeds": ["0", "1", "4242"], "comparisons": n_cmp,
                                                     "wall_s": round(time.time() - t0, 1)}}}


if __name__ == "__main__":
    _child_main(sys.argv[1])
