"""C14 — interpreter lifecycle is a strict state machine; stop() releases everything."""
from __future__ import annotations

import copy

from hypothesis import strategies as st

from .. import drivers, findings
from ..render import finalize
from ..runner import CaseResult, case_fp

PROPERTY = "C14"
LEVEL = "exploration"
TECHNIQUE = "model-based (stateful) property testing: generated sequences of lifecycle calls against a status automaton model, invariants evaluated after every call; schedules owned by the harness (virtual time, deterministic thread scheduler incl. spawner-first vs child-first)"
RULE = (
    "One machine exercising every resource an interpreter can own (an `after` timer, an invoked service - coroutine or "
    "callable, a delayed self-send with id, a spawned child actor with its own timer, a top-level final state, a state "
    "whose service fails without onError) is driven by generated sequences of <=16 lifecycle calls in any order and "
    "repetition: start, stop, send(event), send_events, advance(virtual time), snapshot+restore (continue with the "
    "restored interpreter, calling start() to resume), on both engines; the sync engine under two thread schedules "
    "(child thread first / spawner first). After every call the model checks: status follows uninitialized->running->"
    "(done|error)->stopped or running->stopped and never moves otherwise; start() while running/done/error adds no "
    "action; start() on a stopped interpreter raises an XStateMachineError subclass and changes nothing; send() on a done/"
    "failed/stopped interpreter changes nothing and nothing is delivered later; stop() is idempotent and legal in any "
    "status; after stop() no task/thread of that interpreter tree is alive, every descendant actor is stopped, and "
    "advancing virtual time past every pending delay runs no action and dequeues no event. Non-trivial = a sequence "
    "containing stop/start/send after a terminal status or a stop with a live timer, service, delayed send or actor; "
    "distinct = distinct sequences."
    ' Also: Lifecycle calls made from inside a macrostep: STOPIN / STOPIN0 / STOPIN2 are transitions whose action calls stop() on its own interpreter (on the way into a state owning a timer and a service; targetless; followed in the same list by a delayed raise and a spawn).'
)
ASSUMPTIONS = [
    "calls made while a macrostep is in flight are generated through slow actions only (virtual time); bytecode-level "
    "preemption of the sync engine is not explored",
    "send() on an uninitialized interpreter is not judged (the property names done/failed/stopped only)",
]


def machine_spec(svc_kind: str, root_svc: bool = False):
    kid_root = {"key": "kid", "kind": "compound", "initial": "k1", "children": [
        {"key": "k1", "kind": "atomic", "after": [[40, [{"target": ["k2"], "actions": []}]]], "on": [["KPING", [{"target": None, "actions": []}]]]},
        {"key": "k2", "kind": "atomic", "after": [[40, [{"target": ["k1"], "actions": []}]]]}]}
    kid = {"id": "kid", "root": kid_root, "context": {}, "maxIterations": 30, "tables": {}, "services": {}}
    finalize(kid)
    # kid2: spawns a grandchild of its own on entry and reaches its top-level final state 20 ms later,
    # i.e. a child that is `done` while its own child keeps running
    grand_root = {"key": "grand", "kind": "compound", "initial": "g1", "children": [
        {"key": "g1", "kind": "atomic", "after": [[40, [{"target": ["g2"], "actions": []}]]]},
        {"key": "g2", "kind": "atomic", "after": [[40, [{"target": ["g1"], "actions": []}]]]}]}
    grand = {"id": "grand", "root": grand_root, "context": {}, "maxIterations": 30, "tables": {}, "services": {}}
    finalize(grand)
    kid2_root = {"key": "kid2", "kind": "compound", "initial": "w", "children": [
        {"key": "w", "kind": "atomic", "entry": [{"k": "raw", "cfg": {"type": "spawn_grand"}}], "after": [[20, [{"target": ["kfin"], "actions": []}]]]},
        {"key": "kfin", "kind": "final"}]}
    kid2 = {"id": "kid2", "root": kid2_root, "context": {}, "maxIterations": 30, "tables": {}, "services": {"grand": {"k": "machine", "child": grand}}}
    finalize(kid2)
    root = {"key": "m", "kind": "compound", "initial": "idle", "children": [
        {"key": "idle", "kind": "atomic", "on": [
            ["GO", [{"target": ["work"], "actions": []}]],
            ["SPAWN", [{"target": None, "actions": [{"k": "raw", "cfg": {"type": "spawn_kid"}}]}]],
            ["SPAWN2", [{"target": None, "actions": [{"k": "raw", "cfg": {"type": "spawn_kid2"}}]}]],
            ["DSEND", [{"target": None, "actions": [{"k": "raise", "event": "LATE", "delay": 60, "id": "ds"}]}]],
            ["DSEND2", [{"target": None, "actions": [{"k": "raise", "event": "LATE", "delay": 70}]}]],
            ["LATE", [{"target": None, "actions": []}]],
            ["FIN", [{"target": ["fin"], "actions": []}]],
            ["BAD", [{"target": ["bad"], "actions": []}]],
            ["SLOW", [{"target": None, "actions": [{"k": "user", "name": "slow"}]}]],
            # stop() called from inside the macrostep, by a transition action, on the way into a state that
            # owns a timer and a service; and from a targetless transition
            ["STOPIN", [{"target": ["work"], "actions": [{"k": "user", "name": "stopself"}]}]],
            ["STOPIN0", [{"target": None, "actions": [{"k": "user", "name": "stopself"}]}]],
            # ... and followed, in the same action list, by actions that create resources
            ["STOPIN2", [{"target": None, "actions": [{"k": "user", "name": "stopself"}, {"k": "raise", "event": "LATE", "delay": 60},
                                                      {"k": "raw", "cfg": {"type": "spawn_kid"}}]}]],
        ]},
        {"key": "work", "kind": "atomic", "after": [[50, [{"target": ["idle"], "actions": []}]]],
         "invoke": [{"src": "svc", "id": "iw", "onDone": [{"target": ["idle"], "actions": []}]}],
         "on": [["STOPWORK", [{"target": ["idle"], "actions": []}]]]},
        {"key": "bad", "kind": "atomic", "invoke": [{"src": "boom", "id": "ib"}]},
        {"key": "fin", "kind": "final"},
    ]}
    services = {"svc": {"k": svc_kind, "outcome": "return", "ms": 80, "value": 1},
                "boom": {"k": "sync", "outcome": "raise", "value": 0},
                "kid": {"k": "machine", "child": kid}, "kid2": {"k": "machine", "child": kid2}}
    # a timer owned by the root: no state exit ever cancels it, only stop() does - also after completion
    root["after"] = [[300, [{"target": None, "actions": []}]]]
    if root_svc:
        # async only: a service invoked by the root that fails late (120 ms) with no onError; once the
        # machine is done the failure must not move it to `error`
        services["lateboom"] = {"k": "coro", "outcome": "raise", "ms": 120, "value": 0}
        root["invoke"] = [{"src": "lateboom", "id": "ilb"}]
    spec = {"id": "m", "root": root, "context": {"n": 0}, "maxIterations": 30, "tables": {}, "services": services,
            "impls": {"slow": {"k": "slow", "ms": 30}, "stopself": {"k": "stop_self"}}}
    finalize(spec)
    return spec


EVENTS = ["STOPIN", "STOPIN0", "STOPIN2", "GO", "SPAWN", "SPAWN2", "DSEND", "DSEND2", "FIN", "FIN", "BAD", "STOPWORK", "SLOW", "GO", "SPAWN", "PINGX"]


def plan(tier):
    q = tier == "quick"
    out = [{"name": "main", "examples": 16000 if q else 200000}]
    for f in findings.open_for(PROPERTY):
        if f.exclude_profile:
            out.append({"name": "probe:" + f.id, "examples": 400 if q else 4000, "shards": 4})
    return out


def strategy(tier, campaign):
    opens = [f for f in findings.open_for(PROPERTY) if f.exclude_profile]
    spawner_first_allowed = campaign != "main" or not any(f.exclude_profile.get("spawner_first") is False for f in opens)
    op = st.one_of(
        st.just(["start"]), st.just(["stop"]), st.just(["stop"]),
        st.tuples(st.just("send"), st.sampled_from(EVENTS)).map(list),
        st.tuples(st.just("send"), st.sampled_from(EVENTS)).map(list),
        st.tuples(st.just("send"), st.sampled_from(EVENTS)).map(list),
        st.tuples(st.just("batch"), st.lists(st.sampled_from(EVENTS), min_size=2, max_size=3)).map(list),
        st.tuples(st.just("send!"), st.sampled_from(EVENTS)).map(list),
        st.tuples(st.just("advance"), st.sampled_from([1, 30, 49, 50, 51, 80, 200])).map(list),
        st.tuples(st.just("advance"), st.sampled_from([1, 30, 49, 50, 51, 80, 200])).map(list),
        st.just(["restore"]),
    )
    return st.fixed_dictionaries({
        "engine": st.sampled_from(["sync", "async"]),
        "svc": st.sampled_from(["sync", "coro"]),
        "spawner_first": st.booleans() if spawner_first_allowed else st.just(False),
        "ops": st.lists(op, min_size=2, max_size=16),
        "root_svc": st.sampled_from([False, False, False, True]),
    })


LEGAL = {
    "uninitialized": {"uninitialized", "running", "done", "error", "stopped"},
    "running": {"running", "done", "error", "stopped"},
    "done": {"done", "stopped"},
    "error": {"error", "stopped"},
    "stopped": {"stopped"},
}


def _number(ops):
    out = []
    seq = 0
    for op in ops:
        if op[0] in ("send", "send!"):
            out.append([op[0], op[1], seq])
            seq += 1
        elif op[0] == "batch":
            out.append(["batch", [[t, seq + i] for i, t in enumerate(op[1])]])
            seq += len(op[1])
        else:
            out.append(list(op))
    return out


def check_case(case) -> CaseResult:
    res = CaseResult()
    engine = case["engine"]
    svc = case["svc"] if engine == "async" else "sync"
    spec = machine_spec(svc, root_svc=bool(case.get("root_svc")) and engine == "async")
    ops = _number(case["ops"]) + [["stop"], ["advance", 400]]
    opts = {"no_autostart": True, "budget": 8000, "yield_on_start": not case["spawner_first"]}
    run = drivers.ENGINES[engine](spec, ops, opts)
    res.sample = {"engine": engine, "svc": svc, "spawner_first": case["spawner_first"], "ops": case["ops"]}
    if run.create_exc or run.aborted:
        res.inconclusive = run.aborted or ("create:" + str(run.create_exc))
        return res
    sched_tag = "spawner-first" if (engine == "sync" and case["spawner_first"]) else "default"
    prev_status = "uninitialized"
    prev = None
    nontrivial = False
    stopped_at = None
    spawned = False
    restored_since_stop = False
    for i, o in enumerate(run.steps):
        op = o.op
        st_ = o.status
        # the spawned child shares the Recorder; its own timers keep running (legitimately) while the
        # parent is done / failed, so its actions are not "something the call did"
        acts_all = [e for e in o.log if e[0] == "act"]
        acts = [e for e in o.log if e[0] == "act" and not (e[1].startswith(("en:kid", "ex:kid", "en:grand", "ex:grand"))
                                                        or any(x in (str(e[2]) + ".") for x in (".kid.", ".kid2.", ".grand.")))]
        recvs = [e for e in o.log if e[0] == "recv"]
        if prev is not None and prev.op[0] == "send!" and prev_status == "running":
            # the previous send was left unprocessed on purpose: what runs now belongs to it
            acts, recvs = [], []
        # ---- status automaton
        if op[0] != "restore" and st_ not in LEGAL.get(prev_status, set()):
            res.violate(f"{engine}|illegal-status-move|{prev_status}->{st_}|{op[0]}", {"op": op, "i": i})
        if op[0] == "restore":
            if o.exc and engine == "async" and prev_status == "stopped" and o.extra.get("exc_is_lib"):
                pass  # the driver resumes a restored async interpreter with start(): refusing a stopped one is right
            elif o.exc:
                res.violate(f"{engine}|restore-raised|{o.exc}|from-{prev_status}", {"msg": o.extra.get("exc_msg")})
            elif st_ != prev_status and not (engine == "async" and prev_status in ("stopped", "uninitialized")):
                res.violate(f"{engine}|restore-changed-status|{prev_status}->{st_}", {"i": i})
            if o.exc is None:
                stopped_at = None if st_ != "stopped" else stopped_at
        if op[0] == "start":
            if prev_status == "stopped":
                nontrivial = True
                if not o.exc or not o.extra.get("exc_is_lib"):
                    res.violate(f"{engine}|start-on-stopped-did-not-refuse|{o.exc}", {"exc": o.exc})
                if acts or recvs or st_ != "stopped":
                    res.violate(f"{engine}|start-on-stopped-changed-something", {"acts": [a[1] for a in acts][:4], "status": st_})
            elif prev_status in ("running", "done", "error"):
                if o.exc:
                    res.violate(f"{engine}|start-while-{prev_status}-raised|{o.exc}", {})
                # only what a (re)start itself would run: entry actions / the init event. A timer or a
                # delayed send coming due at the very instant of the call is not the call's doing.
                own = [a for a in acts if a[1].startswith("en:") or str(a[2]).startswith(("entry.", "___xstate"))]
                if own and prev is not None and prev.op[0] != "restore":
                    res.violate(f"{engine}|start-while-{prev_status}-ran-actions", {"acts": [a[1] for a in own][:4]})
                if prev_status in ("done", "error"):
                    nontrivial = True
            elif prev_status == "uninitialized" and o.exc:
                res.violate(f"{engine}|first-start-raised|{o.exc}", {"msg": o.extra.get("exc_msg")})
        if op[0] in ("send", "batch", "send!") and prev_status in ("done", "error", "stopped"):
            nontrivial = True
            if o.exc:
                res.violate(f"{engine}|send-on-{prev_status}-raised|{o.exc}", {})
            if acts or recvs or (prev is not None and (o.cfg != prev.cfg or o.ctx != prev.ctx or st_ != prev_status)):
                res.violate(f"{engine}|send-on-{prev_status}-changed-something",
                            {"op": op, "acts": [a[1] for a in acts][:4], "recv": [r[1] for r in recvs][:4]})
        if op[0] == "stop":
            if o.exc:
                res.violate(f"{engine}|stop-raised|{o.exc}|from-{prev_status}", {"msg": o.extra.get("exc_msg")})
            want = "uninitialized" if prev_status == "uninitialized" else "stopped"
            if st_ != want:
                res.violate(f"{engine}|stop-left-status-{st_}|from-{prev_status}", {})
            if prev_status == "stopped":
                nontrivial = True
                if acts or recvs:
                    res.violate(f"{engine}|second-stop-did-something", {"acts": [a[1] for a in acts][:4]})
            # census at the moment stop() has returned (not after the pending delays have run out)
            live = [n for n in (o.extra.get("live_after_stop") or []) if not str(n).startswith("actor-")]
            if live and st_ == "stopped":
                kinds = sorted({str(n).split("-")[0].split(".")[-1][:24] for n in live})
                res.violate(f"{engine}|alive-when-stop-returned|{'+'.join(kinds)}|{sched_tag}", {"live": [str(n)[:50] for n in live][:5], "i": i})
        if op[0] in ("send", "batch") and any(e[0] == "aexec" and e[1] == "spawn_kid" for e in o.log):
            spawned = True
        # ---- after stop nothing is delivered
        if prev_status == "stopped" and op[0] == "advance":
            nontrivial = True
            # (descendant actors included: after the parent's stop() nobody in the tree acts any more)
            late = [a[1] for a in acts_all] + [r[1] for r in recvs]
            if late:
                who = "descendant" if not ([a for a in acts] + recvs) else "own"
                res.violate(f"{engine}|delivery-after-stop|{who}|{sched_tag}", {"late": late[:6], "dt": op[1]})
        prev_status = st_
        prev = o
    # ---- census after the final stop
    if engine == "async" and run.census_after_stop:
        res.violate("async|tasks-alive-after-stop", {"tasks": run.census_after_stop[:5]})
    if engine == "sync" and run.sched_live:
        names = sorted({n.split("-")[0] for n in run.sched_live})
        res.violate(f"sync|threads-alive-after-stop|{'+'.join(names)}|{sched_tag}", {"threads": [n[:40] for n in run.sched_live][:5]})
    it = run.interp
    if it is not None:
        alive = [a.id for a in getattr(it, "_actors", {}).values() if a.status == "running"]
        if alive:
            res.violate(f"{engine}|actor-running-after-parent-stop|{sched_tag}", {"actors": [a[:30] for a in alive]})
    if run.thread_excs:
        res.violate(f"{engine}|exception-in-engine-thread|{run.thread_excs[0].split(':')[-1]}|{sched_tag}", {"excs": run.thread_excs[:3]})
    res.nontrivial = nontrivial
    res.nontrivial_keys = [case_fp(case)]
    seen = set()
    uniq = []
    for t, d_ in res.violations:
        if t not in seen:
            seen.add(t)
            uniq.append((t, d_))
    res.violations = uniq
    return res
