"""C17 — code generator: output rebuilds the source machine exactly, or writes nothing."""
from __future__ import annotations

import ast
import copy
import glob
import json
import logging
import os
import shutil
import subprocess
import sys
import tempfile

from hypothesis import strategies as st

from .. import findings, gen
from ..fingerprint import diff, machine_fp
from ..gen import D
from ..recorder import Recorder
from ..render import Renderer, state_transitions, walk_states
from ..runner import CaseResult, case_fp

PROPERTY = "C17"
LEVEL = "translation_validation"
TECHNIQUE = "translation validation by differential property-based testing: for generated machine JSON (and the 104 shipped Stately exports) the CLI is run as a subprocess and the machine built by the generated module is compared (deep fingerprint) with create_machine(json); idempotence and --check; hostile names with an execution canary"
LEVEL_TEXT = ("per generated program (machine JSON x template x sync/async x 1/2 files) the CLI either refuses and leaves the output "
              "directory untouched, or its output is validated: parses, imports without side effects, rebuilds a machine with "
              "the same deep fingerprint as create_machine(json) (pythonic templates) / binds every referenced name (JSON-loading "
              "templates), regenerates byte-identically and passes --check")
RULE = (
    "Programs = generated machine configs covering nesting, parallel, history, after (numeric / named), always, invoke "
    "with id/input/handlers, onDone, tags, meta, context, guards as names / parameterised objects / stateIn / composites "
    "in both operand spellings incl. composites nested in composites of the same operator, invoke ids equal to their "
    "state's path or key, actions with params, null-free transitions, plus hostile and colliding names (quotes, "
    "backslashes, newlines, triple quotes, keywords, names equal after sanitising, unicode, a shell/py payload) and the "
    "104 Stately exports in tests/tests_cli/stately_machines; x 5 templates x async yes/no x 1/2 files. The CLI runs as a "
    "subprocess in a scratch directory (removed afterwards). Oracle: exit!=0 and directory unchanged, OR: every file "
    "parses; importing in a fresh subprocess creates no file, starts no interpreter, prints nothing, executes no canary; "
    "pythonic templates: fingerprint(build()) == fingerprint(create_machine(json)); JSON templates: create_machine(json, "
    "generated logic) binds every name; second generation byte-identical and --check exits 0. Non-trivial = a config with "
    ">=2 levels of nesting and a guard/param/invoke/after construct, or a hostile name; distinct = distinct (config, options)."
    ' Also: Regeneration and --check run under other PYTHONHASHSEED values than the first generation.'
)
ASSUMPTIONS = [
    "fingerprints compare structure (states, kinds, resolved targets, guard structure with params, actions with params, "
    "delays, invokes, tags, meta, context), not the bodies of generated stubs",
    "the CLI is exercised through its command line only, ~1-3 s per call, so case counts are small",
]
logging.disable(logging.CRITICAL)
CASE_TIMEOUT = 300
NO_SHRINK = True  # a case costs four CLI subprocesses; the failing config is kept as generated
TEMPLATES = ["pythonic-functional", "pythonic-builder", "pythonic-class", "class-json", "function-json"]
CORPUS = sorted(glob.glob("/repo/tests/tests_cli/stately_machines/*.json"))
HOSTILE = ['say"hi', "back\\slash", "new\nline", 'tri"""ple', "class", "def", "do-it", "do it", "do_it", "ünï", "1abc",
           "__import__('os').system('touch CANARY')", "x');open('CANARY','w');('", "a.b", "None"]

BASE = dict(after=True, invoke=True, guards="tab", p_guard=40, always=True, ondone=True, nested_builtins=False,
            p_handler=35, max_iterations=None, history=True, assign=False, unhandled_service_errors=False, max_states=14)
BASE["raise"] = False


def _open_excl():
    ex = {}
    for f in findings.open_for(PROPERTY):
        ex.update(f.exclude_profile or {})
    return ex


def plan(tier):
    q = tier == "quick"
    out = [{"name": "main", "examples": 32 if q else 2000, "shards": 8 if q else 16},
           {"name": "hostile", "examples": 16 if q else 600, "shards": 8 if q else 16}]
    for f in findings.open_for(PROPERTY):
        if f.exclude_profile:
            out.append({"name": "probe:" + f.id, "examples": 16 if q else 400, "shards": 4})
    return out


# Hand-made regression shapes (each one a defect repaired in the CLI): enumerated next to the corpus.
def _g(guard):
    return {"id": "m", "initial": "a", "states": {"a": {"on": {"GO": {"target": "b", "guard": guard}}}, "b": {}}}


SHAPES = {
    "handler-targets-own-state-with-same-key-child": {"id": "m", "initial": "b", "states": {
        "b": {"initial": "b", "invoke": {"id": "i1", "src": "svcOne", "onDone": {"target": "#m.b"}, "onError": {"target": "#m.b"}}, "states": {"b": {}}}, "c": {}}},
    "sibling-target-shadowed-by-child-key": {"id": "m", "initial": "b", "states": {
        "b": {"initial": "c", "invoke": {"id": "i1", "src": "svcOne", "onDone": {"target": "#m.c"}}, "states": {"c": {}}}, "c": {}}},
    "and-children": _g({"type": "and", "children": ["gOne", "gTwo"]}),
    "not-params-guard": _g({"type": "not", "params": {"guard": "gOne"}}),
    "or-params-children": _g({"type": "or", "params": {"children": ["gOne", {"type": "not", "children": ["gTwo"]}]}}),
    "not-not": _g({"type": "not", "params": {"guards": [{"type": "not", "params": {"guards": ["gOne"]}}]}}),
    "and-and": _g({"type": "and", "children": [{"type": "and", "children": ["gOne", "gTwo"]}, "gThree"]}),
    "param-guard": _g({"type": "limTwo", "params": {"lim": 3}}),
    "state-in": _g({"type": "stateIn", "params": {"state": "#m.a"}}),
    "names-only-in-state-ondone": {"id": "m", "initial": "p", "states": {
        "p": {"initial": "x", "onDone": {"target": "q", "actions": ["afterAll"], "guard": "allGood"}, "states": {"x": {"on": {"GO": "y"}}, "y": {"type": "final"}}}, "q": {}}},
    # names referenced only below a state declared final: a `final` state with children (loaded as compound by the
    # engine) and a final leaf that still carries handlers
    "names-only-under-final-with-children": {"id": "m", "initial": "a", "states": {"a": {"on": {"GO": "f"}}, "f": {"type": "final", "initial": "x", "states": {
        "x": {"entry": ["deepEntry"], "on": {"NEXT": {"target": "y", "guard": "deepGuard", "actions": ["deepAct"]}}}, "y": {}}}}},
    "names-only-on-final-leaf-handlers": {"id": "m", "initial": "a", "states": {"a": {"on": {"GO": "f"}}, "f": {"type": "final", "entry": ["finEntry"],
        "on": {"PING": {"actions": ["finAct"], "guard": "finGuard"}}}}},
    "several-names-of-each-kind": {"id": "m", "initial": "a", "states": {"a": {"entry": ["zeta", "alpha", "mid"], "on": {
        "GO": [{"target": "b", "guard": "gZ", "actions": ["beta"]}, {"target": "b", "guard": "gA"}, {"target": "b", "guard": "gM"}]},
        "invoke": [{"id": "i1", "src": "svcZ", "onDone": "b"}, {"id": "i2", "src": "svcA"}, {"id": "i3", "src": "svcM"}]}, "b": {}}},
    "invoke-id-equals-state-key": {"id": "m", "initial": "loading", "on": {"done.invoke.loading": {"actions": ["noteDone"]}}, "states": {
        "loading": {"invoke": {"id": "loading", "src": "svcOne", "onDone": {"target": "ready"}}}, "ready": {}}},
}


def _corpus_worker(case):
    res = check_case(case)
    return case, res.violations, res.nontrivial, res.inconclusive, res.sample


def extra_run(tier, seed, jobs):
    """The 104 shipped Stately exports are enumerated, not sampled: quick = each file once with a rotating
    template/mode; thorough = each file x 5 templates x sync/async."""
    import multiprocessing as mp

    cases = []
    for i, f in enumerate(CORPUS):
        if tier == "quick":
            if (i + seed) % 2:
                continue  # quick: every other file (which half depends on the seed)
            k = i + seed
            cases.append({"kind": "corpus", "file": f, "template": TEMPLATES[k % 5], "async": ["yes", "no"][k % 2], "files": 1 + (k // 2) % 2})
        else:
            for t in TEMPLATES:
                for am in ("yes", "no"):
                    cases.append({"kind": "corpus", "file": f, "template": t, "async": am, "files": 1 + (i % 2)})
    for si, (name, cfg) in enumerate(SHAPES.items()):
        # quick: one pythonic and one JSON-loading template per shape (rotating with the seed); thorough: all five
        tpls = TEMPLATES if tier != "quick" else [TEMPLATES[(si + seed) % 3], TEMPLATES[3 + (si + seed) % 2]]
        for t in tpls:
            cases.append({"kind": "gen", "config": copy.deepcopy(cfg), "template": t, "async": "no" if (len(name) + len(t)) % 2 else "yes",
                          "files": 1 + (len(name) % 2), "shape": name})
    ctx = mp.get_context("fork")
    viol, nt, samples = [], 0, []
    inconcl = 0
    with ctx.Pool(jobs) as pool:
        for case, vs, nontriv, inc, sample in pool.imap_unordered(_corpus_worker, cases):
            nt += 1 if nontriv else 0
            inconcl += 1 if inc else 0
            if nontriv and len(samples) < 2:
                samples.append(sample)
            for tag, detail in vs:
                viol.append({"tag": tag, "detail": detail, "case": case})
    return {"evaluations": len(cases), "nontrivial_count": nt, "violations": viol, "samples": samples,
            "coverage": {"corpus": {"files": len(CORPUS), "hand_made_shapes": len(SHAPES), "runs": len(cases), "inconclusive": inconcl}}}


def _json_config(spec, d: D, rich_guards: bool, hostile: bool):
    """Spec -> plain JSON config (no Python callables)."""
    spec = copy.deepcopy(spec)
    n = 0
    for sid, s in walk_states(spec):
        if s["kind"] != "history" and d.chance(15):
            s["tags"] = ["tag" + str(d.int(0, 2))]
        if s["kind"] != "history" and d.chance(10):
            s["meta"] = {"note": "n" + str(d.int(0, 9))}
        for fam, key, i, t in state_transitions(s):
            if t.get("null"):
                continue
            if rich_guards and t.get("guard") is not None and d.chance(35):
                g = t["guard"]
                kind = d.pick(["param", "in", "and", "or", "not"])
                if kind == "param":
                    t["guard"] = {"k": "param", "name": "lim" + str(d.int(0, 2)), "params": {"want": True, "lim": d.int(1, 9)}}
                elif kind == "in":
                    t["guard"] = {"k": "in", "state": [], "sp": {"form": d.pick(["#abs", "abs"])}}
                elif kind == "not":
                    t["guard"] = {"k": "not", "arg": g, "sp": {"form": d.pick(["children", "params.guard"])}}
                else:
                    t["guard"] = {"k": kind, "args": [g, {"k": "const", "val": True}], "sp": {"form": d.pick(["children", "params.guards"])}}
            elif t.get("guard") is not None and d.chance(45):
                # composites nested inside composites of the same operator (not(not g), and(and ..))
                # in a drawn operand spelling
                g = t["guard"]
                tr = {"k": "const", "val": True}
                f = {"form": d.pick(["params.guards", "params.guards", "children"]) if rich_guards else "params.guards"}
                kind = d.pick(["and", "or", "not", "notnot", "andand", "oror", "notand"])
                if kind == "not":
                    t["guard"] = {"k": "not", "arg": g, "sp": f}
                elif kind == "notnot":
                    t["guard"] = {"k": "not", "arg": {"k": "not", "arg": g, "sp": f}, "sp": f}
                elif kind == "andand":
                    t["guard"] = {"k": "and", "args": [{"k": "and", "args": [g, tr], "sp": f}, tr], "sp": f}
                elif kind == "oror":
                    t["guard"] = {"k": "or", "args": [{"k": "or", "args": [g, dict(tr, val=False)], "sp": f}, dict(tr, val=False)], "sp": f}
                elif kind == "notand":
                    t["guard"] = {"k": "not", "arg": {"k": "and", "args": [g, tr], "sp": f}, "sp": f}
                else:
                    t["guard"] = {"k": kind, "args": [g, tr], "sp": f}
            if rich_guards and d.chance(15):
                t.setdefault("actions", []).append({"k": "user", "name": "notify", "params": {"level": d.int(1, 3)}})
    r = Renderer(spec, Recorder())
    cfg = r.config()
    cfg.pop("maxIterations", None)
    cfg = _identifier_names(cfg)

    # an invoke id that happens to equal its own state's path (dotted, or the bare key)
    def ids(node, path):
        inv = node.get("invoke")
        for one in (inv if isinstance(inv, list) else [inv] if isinstance(inv, dict) else []):
            if isinstance(one, dict) and path and d.chance(35):
                one["id"] = d.pick([".".join(path), path[-1], ".".join(path)])
            # a handler that targets its own (invoking) state while a child carries the same key
            if isinstance(one, dict) and path and isinstance(node.get("states"), dict) and path[-1] in node["states"] and d.chance(70):
                for hk in ("onDone", "onError"):
                    h = one.get(hk)
                    if isinstance(h, dict) and "target" in h:
                        h["target"] = "#" + str(cfg.get("id", "m")) + "." + ".".join(path)
        for k, c in (node.get("states") or {}).items():
            if isinstance(c, dict):
                ids(c, path + [k])

    ids(cfg, [])
    # named delays only exist in logic: keep numeric ones (the IR models both, named need MachineLogic.delays)
    if hostile:
        names = [d.pick(HOSTILE) for _ in range(3)]
        st_ = cfg.get("states", {})
        keys = list(st_.keys())
        if keys:
            k0 = keys[0]
            st_[k0].setdefault("entry", [])
            if not isinstance(st_[k0]["entry"], list):
                st_[k0]["entry"] = [st_[k0]["entry"]]
            st_[k0]["entry"].append(names[0])
            st_[k0].setdefault("on", {})["HOSTILE"] = {"actions": [names[1]], "guard": names[2]}
        if d.chance(40):
            cfg["id"] = d.pick(["m-1", "my machine", "m", "class", 'q"x'])
    return cfg


def _ident(name: str) -> str:
    """'en:m.a.b' -> 'enMAB' (letter/digit-only camelCase; the JSON-loading templates bind by name)."""
    parts = [p for p in "".join(ch if ch.isalpha() else " " for ch in name).split() if p]
    digits = "".join(ch for ch in name if ch.isdigit())
    if digits:
        parts.append("n" + "".join("abcdefghij"[int(c)] for c in digits))
    # single-letter components make camelCase <-> snake_case conventions disagree (exMC -> ex_mc -> exMc)
    parts = [(p_ * 2 if len(p_) == 1 else p_).lower() for p_ in parts]
    if not parts:
        return "xx"
    out = parts[0][0].lower() + parts[0][1:]
    for p_ in parts[1:]:
        out += p_[0].upper() + p_[1:]
    return out


_BUILTIN_GUARDS = {"and", "or", "not", "stateIn"}


def _identifier_names(cfg):
    def guard(g):
        if isinstance(g, str):
            return _ident(g)
        if isinstance(g, dict):
            g = dict(g)
            if g.get("type") not in _BUILTIN_GUARDS and isinstance(g.get("type"), str):
                g["type"] = _ident(g["type"])
            if isinstance(g.get("children"), list):
                g["children"] = [guard(x) for x in g["children"]]
            if isinstance(g.get("params"), dict):
                pr = dict(g["params"])
                if isinstance(pr.get("guards"), list):
                    pr["guards"] = [guard(x) for x in pr["guards"]]
                if "guard" in pr and g.get("type") == "not":
                    pr["guard"] = guard(pr["guard"])
                g["params"] = pr
        return g

    def act(a):
        if isinstance(a, str):
            return _ident(a)
        if isinstance(a, dict) and isinstance(a.get("type"), str) and not a["type"].startswith("xstate."):
            return dict(a, type=_ident(a["type"]))
        return a

    def acts(v):
        if isinstance(v, list):
            return [act(x) for x in v]
        return act(v)

    def trans(t):
        if isinstance(t, list):
            return [trans(x) for x in t]
        if isinstance(t, dict):
            t = dict(t)
            if "actions" in t:
                t["actions"] = acts(t["actions"])
            for k in ("guard", "cond"):
                if k in t:
                    t[k] = guard(t[k])
        return t

    def state(s):
        s = dict(s)
        for k in ("entry", "exit"):
            if k in s:
                s[k] = acts(s[k])
        for k in ("on", "after"):
            if isinstance(s.get(k), dict):
                s[k] = {e: trans(t) for e, t in s[k].items()}
        for k in ("always", "onDone"):
            if k in s:
                s[k] = trans(s[k])
        if "invoke" in s:
            inv = s["invoke"] if isinstance(s["invoke"], list) else [s["invoke"]]
            new = []
            for i in inv:
                i = dict(i)
                for k in ("onDone", "onError"):
                    if k in i:
                        i[k] = trans(i[k])
                new.append(i)
            s["invoke"] = new if isinstance(s["invoke"], list) else new[0]
        if isinstance(s.get("states"), dict):
            s["states"] = {k: state(v) for k, v in s["states"].items()}
        return s

    return state(cfg)


@st.composite
def _gen_case(draw, rich_guards, hostile):
    prof = gen.profile(**BASE)
    spec = draw(gen.machine_specs(prof))
    d = D(draw)
    cfg = _json_config(spec, d, rich_guards, hostile)
    return {"kind": "gen", "config": cfg, "template": draw(st.sampled_from(TEMPLATES)), "async": draw(st.sampled_from(["yes", "no"])),
            "files": draw(st.sampled_from([1, 2])), "hostile": hostile}


def strategy(tier, campaign):
    excl = _open_excl()
    if campaign == "main":
        return _gen_case(rich_guards=excl.get("rich_guards", True), hostile=False)
    if campaign == "hostile":
        return _gen_case(rich_guards=False, hostile=True)
    if campaign == "corpus":
        return st.fixed_dictionaries({"kind": st.just("corpus"), "file": st.sampled_from(CORPUS or ["<none>"]),
                                      "template": st.sampled_from(TEMPLATES), "async": st.sampled_from(["yes", "no"]),
                                      "files": st.sampled_from([1, 2])})
    return _gen_case(rich_guards=True, hostile=False)


# ----------------------------------------------------------------------------- running the CLI
def _listing(d):
    out = {}
    for root, dirs, files in os.walk(d):
        dirs[:] = [x for x in dirs if x != "__pycache__"]
        for f in files:
            p = os.path.join(root, f)
            try:
                out[os.path.relpath(p, d)] = open(p, "rb").read()
            except OSError:
                pass
    return out


def _cli(args, cwd, timeout=120, hashseed=None):
    env = dict(os.environ)
    if hashseed is not None:
        # every real CLI invocation is a new process with its own string-hash seed: regeneration and --check
        # are run under seeds other than the one the first generation ran under
        env["PYTHONHASHSEED"] = str(hashseed)
    env["PYTHONPATH"] = os.pathsep.join(p for p in sys.path if p)
    env["PYTHONDONTWRITEBYTECODE"] = "1"
    p = subprocess.run([sys.executable, "-W", "ignore", "-m", "xstate_statemachine.cli", "generate-template"] + args,
                       cwd=cwd, env=env, capture_output=True, text=True, timeout=timeout)
    return p.returncode, p.stdout + p.stderr


def check_case(case) -> CaseResult:
    from xstate_statemachine import MachineLogic, create_machine
    from xstate_statemachine.exceptions import XStateMachineError

    res = CaseResult()
    tmp = tempfile.mkdtemp(prefix="xsm-c17-", dir=os.environ.get("TMPDIR", "/var/tmp"))
    try:
        if case["kind"] == "corpus":
            if not os.path.exists(case["file"]):
                res.inconclusive = "no-corpus"
                return res
            cfg = json.load(open(case["file"]))
            label = "corpus"
        else:
            cfg = case["config"]
            label = "hostile" if case.get("hostile") else "gen"
        jpath = os.path.join(tmp, "machine.json")
        json.dump(cfg, open(jpath, "w"))
        out = os.path.join(tmp, "out")
        os.makedirs(out)
        template = case["template"]
        args = [jpath, "-t", template, "-fc", str(case["files"]), "-am", case["async"], "-o", out, "--log", "no", "--sleep", "no", "-f"]
        before = _listing(out)
        rc, text = _cli(args, tmp)
        after = _listing(out)
        res.sample = {"template": template, "async": case["async"], "files": case["files"], "exit": rc,
                      "source": case.get("file", "generated"), "generated_files": sorted(after)}
        res.classes.append(f"{label}:{template}:exit{rc}")
        shape = f"{template}|{label}"
        if rc != 0:
            if after != before:
                res.violate(f"refused-but-wrote-files|{shape}", {"files": sorted(after), "tail": text[-300:]})
            return res
        if not after:
            res.violate(f"exit0-but-nothing-written|{shape}", {"tail": text[-300:]})
            return res
        # ---- every file parses
        for name, data in after.items():
            if name.endswith(".py"):
                try:
                    ast.parse(data.decode("utf-8"))
                except SyntaxError as e:
                    res.violate(f"generated-file-does-not-parse|{shape}", {"file": name, "err": str(e)[:200]})
                    return res
        # ---- import in a fresh subprocess
        env = dict(os.environ)
        env["PYTHONPATH"] = os.pathsep.join(p for p in sys.path if p)
        env["PYTHONDONTWRITEBYTECODE"] = "1"
        p = subprocess.run([sys.executable, "-W", "ignore", "-m", "xsmverif.tools.c17_probe", out, jpath, template, "machine"],
                           cwd=tmp, env=env, capture_output=True, text=True, timeout=120)
        line = next((l for l in p.stdout.splitlines() if l.startswith("PROBE ")), None)
        if line is None:
            res.violate(f"probe-crashed|{shape}", {"stderr": p.stderr[-400:]})
            return res
        rep = json.loads(line[6:])
        if rep.get("canary"):
            res.violate(f"hostile-string-executed|{shape}", {})
        if not rep["imported"]:
            res.violate(f"generated-module-does-not-import|{shape}|{_errkind(rep.get('error'))}", {"error": rep["error"]})
            return res
        if rep["started"]:
            res.violate(f"import-started-an-interpreter|{shape}", {"n": rep["started"]})
        if rep["stdout"].strip():
            res.violate(f"import-printed-output|{shape}", {"stdout": rep["stdout"][:200]})
        if rep["new_files"]:
            res.violate(f"import-created-files|{shape}", {"files": rep["new_files"][:5]})
        # ---- the machine it rebuilds
        try:
            ref = create_machine(copy.deepcopy(cfg), logic=MachineLogic())
            ref_fp = json.loads(json.dumps(machine_fp(ref), default=repr))
        except XStateMachineError as e:
            res.violate(f"generated-code-for-a-config-the-library-rejects|{shape}", {"msg": str(e)[:200]})
            return res
        except Exception as e:  # noqa
            res.inconclusive = "reference-build-raised:" + type(e).__name__
            return res
        if template.startswith("pythonic"):
            if rep.get("error"):
                res.violate(f"generated-machine-does-not-build|{shape}|{_errkind(rep['error'])}", {"error": rep["error"]})
            elif "fp" in rep:
                d_ = diff(ref_fp, rep["fp"])
                if d_:
                    parts = [x.split("[")[0] for x in d_[0].split("/") if x]
                    field = parts[2] if len(parts) > 2 else parts[-1]
                    sub = parts[-1] if parts[-1] in ("guard", "params", "target", "actions", "type", "children") else ""
                    if sub == "children" and d_[2] == "<absent>":
                        sub = "children-dropped"   # the emitter wrote the composite without its operands (F21b)
                    if sub == "target" and isinstance(d_[1], str) and isinstance(d_[2], str) and d_[2].startswith(d_[1] + ".") \
                            and d_[2].split(".")[-1] == d_[1].split(".")[-1]:
                        sub = "target-resolved-to-same-key-child"
                    res.violate(f"rebuilt-machine-differs|{template}|{field}{'/' + sub if sub else ''}|{label}",
                                {"path": d_[0], "json": d_[1], "generated": d_[2], "cli_said": [l for l in text.splitlines() if "Verified" in l][:1]})
        else:
            if rep.get("error"):
                pos = _name_position(cfg, rep["error"]) if label != "hostile" and label != "corpus" else _errkind(rep["error"])
                res.violate(f"generated-logic-does-not-bind|{shape}|{pos}", {"error": rep["error"]})
        # ---- idempotence and --check
        rc2, text2 = _cli(args, tmp, hashseed=101)
        again = _listing(out)
        if rc2 != 0 or again != after:
            changed = [k for k in set(after) | set(again) if after.get(k) != again.get(k)]
            res.violate(f"regeneration-not-byte-identical|{shape}", {"exit": rc2, "changed": changed[:4]})
        rc3, text3 = _cli(args[:-1] + ["--check"], tmp, hashseed=202)
        if rc3 != 0:
            res.violate(f"check-reports-drift-on-fresh-output|{shape}", {"exit": rc3, "tail": text3[-300:]})
        res.extra_evals += 3
        depth = json.dumps(cfg).count('"states"')
        res.nontrivial = depth >= 2 or bool(case.get("hostile"))
    except subprocess.TimeoutExpired:
        res.inconclusive = "cli-timeout"
    finally:
        shutil.rmtree(tmp, ignore_errors=True)
    seen = set()
    uniq = []
    for t, d_ in res.violations:
        if t not in seen:
            seen.add(t)
            uniq.append((t, d_))
    res.violations = uniq
    return res


def _name_position(cfg, err):
    """Where in the config does the name the generated logic failed to bind occur?"""
    parts = (err or "").split("'")
    if len(parts) < 2:
        return _errkind(err)
    name = parts[1]
    found = set()

    def walk(o, path):
        if isinstance(o, dict):
            for k, v in o.items():
                walk(v, path + [k])
        elif isinstance(o, list):
            for v in o:
                walk(v, path)
        elif o == name:
            keys = [k for k in path if k in ("onDone", "onError", "after", "invoke", "always", "on", "entry", "exit")]
            if "children" in path or "guards" in path or (path and path[-1] == "guard" and "params" in path):
                found.add("composite-operand")   # the name is an operand of and/or/not
            elif "invoke" in keys:
                found.add("invoke-handler")
            elif "onDone" in keys:
                found.add("state-onDone")
            elif keys:
                found.add(keys[-1] if keys[-1] != "on" else "on")
            else:
                found.add("other")

    walk(cfg, [])
    return "+".join(sorted(found)) or _errkind(err)


def _errkind(err):
    parts = (err or "").split(":")
    return parts[1] if len(parts) > 1 else (parts[0] or "?")


def shrink_case(case, fails, budget):
    return case
