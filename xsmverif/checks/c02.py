"""C02 — selection: deepest handler, first enabled candidate, once per region; no-op; can()."""
from __future__ import annotations

import re

from hypothesis import strategies as st

from .. import drivers, gen
from ..refsel import Event as REvent
from ..refsel import nominee_set, nominees, table_atoms
from ..render import Index
from ..runner import CaseResult
from ..tree import Tree

PROPERTY = "C02"
LEVEL = "exploration"
RULE = (
    "Guards are table guards, alone or under not/and/or (so that several candidates of one list share a guard type but "
    "not the operands). "
    "Generated machines (depth<=3, parallel regions, same-depth candidate lists of 1-3 guarded transitions, handlers on "
    "ancestors shared by regions, long state keys at shallow depth, null transitions, '*' handlers; table-driven guards "
    "true/false/raising per epoch) x histories of <=12 sends (handled, unhandled 'ZZ', ancestor-only, multi-region), each "
    "send preceded by a can() query. For every dequeued event (external, raised, done.state) the set of nominated "
    "transitions is computed by an independent reference (xsmverif.refsel) from the configuration observed before the "
    "event and the guard table, and compared with the transitions the engine fired: fired subset-of nominees, each once, "
    "a nominee is skipped only if its source was exited earlier in the same step, no other transition's actions run; "
    "an event without nominee leaves configuration/context/history/log unchanged; can(e) == (nominee exists) and is "
    "side-effect free. Non-trivial = an event for which one leaf had >=2 candidates, or the nominee sat on a proper "
    "ancestor, or >=2 regions nominated; distinct = distinct (spec, history) hash."
)
ASSUMPTIONS = [
    "guards are table driven (value = table[name][number of transitions completed so far]) so the reference knows their "
    "value at selection time without reading engine state",
    "order among independently nominated transitions of one step is not constrained (the property states none)",
    "runs cut by maxIterations or exceeding the step budget are inconclusive here (C13)",
]
_TID = re.compile(r"^t\d+$")

PROF = gen.profile(
    after=False, invoke=False, raising_guards=True, null_transitions=True, wildcards=True, long_keys=True,
    p_handler=40, p_guard=60, nested_builtins=False, final_under_root=True, max_iterations=30,
    p_composite_guard=30,   # candidates of one list whose guards share a type (not/and/or) but not the operands
)


def plan(tier):
    return [{"name": "main", "examples": 10000 if tier == "quick" else 150000}]


@st.composite
def _hist(draw):
    base = draw(gen.histories(PROF, max_len=10, advance=False, unknown=True))
    out = []
    for op in base:
        if draw(st.integers(0, 2)) == 0:
            out.append(["can", op[1]])
        out.append(op)
    return out


def strategy(tier, campaign):
    return st.fixed_dictionaries({"spec": gen.machine_specs(PROF), "history": _hist()})


def _check_run(engine, spec, history, tree: Tree, idx: Index, res: CaseResult, nt: list):
    run = drivers.ENGINES[engine](spec, history)
    if run.create_exc:
        res.classes.append(f"{engine}:create-exc:{run.create_exc}")
        return
    if run.aborted:
        res.inconclusive = run.aborted
        return
    maxit = spec.get("maxIterations") or 1000
    epoch = 0
    cur = None
    prev = None
    for o in run.steps:
        if cur is None:
            # the start step: only track configuration/epoch
            for e in o.log:
                if e[0] == "trans" and e[6] != "___xstate_statemachine_init___":
                    epoch += 1
            cur = set(o.cfg)
            prev = o
            if tree.legal(cur):
                res.inconclusive = "illegal-config"  # C01's business
                return
            continue
        atoms = table_atoms(spec, epoch, cur)
        if nominee_set(nominees(idx, cur, REvent("always"), atoms)):
            res.inconclusive = "unsettled-always"
            return
        if o.op[0] == "can":
            n = nominee_set(nominees(idx, cur, REvent.from_type(o.op[1]), atoms))
            expect = bool(n) and prev.status == "running" or (bool(n))
            if bool(o.extra.get("can")) != bool(n):
                res.violate(f"{engine}|can-mismatch|{'has' if n else 'no'}-nominee",
                            {"engine": engine, "event": o.op[1], "can": o.extra.get("can"),
                             "nominees": [t.tid for t in n], "config": sorted(cur)})
            bad = [e for e in o.log if e[0] in ("act", "trans", "sub", "recv", "emit")]
            if bad or o.key() != prev.key() or o.hist != prev.hist:
                res.violate(f"{engine}|can-side-effect", {"engine": engine, "event": o.op[1], "log": [b[:2] for b in bad][:5]})
            prev = o
            continue
        if o.op[0] != "send":
            prev = o
            continue
        if prev.status != "running":
            bad = [e for e in o.log if e[0] in ("act", "trans", "sub", "recv")]
            if bad or o.key() != prev.key():
                res.violate(f"{engine}|event-after-{prev.status}-not-ignored", {"log": [b[:2] for b in bad][:5]})
            prev = o
            continue
        # ---- split the step's log per dequeued event
        segs = []
        for e in o.log:
            if e[0] == "recv":
                segs.append([e])
            elif segs:
                segs[-1].append(e)
        if not segs:
            res.violate(f"{engine}|event-not-received", {"op": o.op})
            prev = o
            continue
        first = True
        for seg in segs:
            ev_type = seg[0][1]
            atoms = table_atoms(spec, epoch, cur)
            if nominee_set(nominees(idx, cur, REvent("always"), atoms)):
                res.inconclusive = "unsettled-always"
                return
            noms = nominees(idx, cur, REvent.from_type(ev_type), atoms)
            N = nominee_set(noms)
            Nids = {t.tid for t in N}
            # classification of the selection problem
            leaves = tree.leaves(cur)
            if N:
                from ..refsel import candidates_at

                multi_c = False
                anc = False
                for leaf, t in noms.items():
                    if t is None:
                        continue
                    if t.source != leaf:
                        anc = True
                    c, _ = candidates_at(idx, t.source, REvent.from_type(ev_type))
                    if len(c) >= 2:
                        multi_c = True
                if multi_c:
                    res.classes.append("sel:multi-candidate")
                if anc:
                    res.classes.append("sel:ancestor-handler")
                if len(N) >= 2:
                    res.classes.append("sel:multi-region")
                if len(N) == 1 and sum(1 for t in noms.values() if t is not None) >= 2:
                    res.classes.append("sel:shared-ancestor-once")
                if multi_c or anc or len(N) >= 2:
                    nt.append(1)
            else:
                res.classes.append("sel:no-nominee")
            # ---- what fired in microstep 1
            fired = []
            k_end = 0
            for k, e in enumerate(seg):
                if e[0] == "trans" and e[1] is not None:
                    ti = idx.trans.get(e[1])
                    if ti is not None and ti.family != "always":
                        fired.append((e, ti))
                        k_end = k
            n_always = sum(1 for e in seg if e[0] == "trans" and e[1] and idx.trans[e[1]].family == "always")
            if n_always >= maxit:
                res.inconclusive = "cut"
                return
            shape = ("multi-region" if len(N) >= 2 else "single") + ("/" + (N[0].family if N else "none"))
            if not N:
                bad = [e for e in seg[1:] if e[0] in ("act", "trans", "sub", "emit", "svc")]
                if bad:
                    res.violate(f"{engine}|noop-ran-something|{bad[0][0]}",
                                {"engine": engine, "event": ev_type, "config": sorted(cur), "log": [b[:2] for b in bad][:6]})
            else:
                ftids = [ti.tid for _, ti in fired]
                for t in ftids:
                    if t not in Nids:
                        res.violate(f"{engine}|fired-not-nominee|{shape}",
                                    {"engine": engine, "event": ev_type, "fired": ftids, "nominees": sorted(Nids), "config": sorted(cur)})
                        break
                if len(set(ftids)) != len(ftids):
                    res.violate(f"{engine}|fired-twice|{shape}", {"engine": engine, "event": ev_type, "fired": ftids})
                # marker actions of transitions inside microstep 1
                acts = [e[1] for e in seg[: k_end + 1] if e[0] == "act" and _TID.match(e[1]) and idx.trans[e[1]].family != "always"]
                for a in acts:
                    if a not in Nids:
                        res.violate(f"{engine}|foreign-action|{shape}", {"engine": engine, "event": ev_type, "action": a, "nominees": sorted(Nids)})
                        break
                if len(set(acts)) != len(acts):
                    res.violate(f"{engine}|action-twice|{shape}", {"engine": engine, "event": ev_type, "acts": acts})
                # nominees that did not fire must have lost their source to an earlier winner
                live = set(cur)
                exited_sometime = set()
                for e, ti in fired:
                    if ti.source not in e[2]:
                        res.violate(f"{engine}|fired-from-inactive-source|{shape}", {"engine": engine, "tid": ti.tid})
                    exited_sometime |= (set(e[2]) - set(e[3]))
                    # a state exited and re-entered inside one transition also counts as exited
                for t in N:
                    if t.tid in ftids:
                        continue
                    # was the source ever inactive between the fired transitions?
                    gone = False
                    for e, ti in fired:
                        if t.source not in e[3] or t.source not in e[2]:
                            gone = True
                    if not gone:
                        res.violate(f"{engine}|nominee-not-fired|{shape}",
                                    {"engine": engine, "event": ev_type, "missing": t.tid, "fired": ftids,
                                     "nominees": sorted(Nids), "config": sorted(cur)})
                        break
            # ---- advance model state over the whole segment
            for e in seg:
                if e[0] == "trans":
                    epoch += 1
                    cur = set(e[4] if e[4] is not None else e[3])
            first = False
        # no-op whole step
        if len(segs) == 1:
            noms = None
        if o.cfg != frozenset(cur):
            # model tracking and observation disagree (e.g. rollback); resync
            cur = set(o.cfg)
        if all(e[0] not in ("trans",) for e in o.log) and not any(e[0] == "act" for e in o.log):
            if o.key() != prev.key() or o.hist != prev.hist:
                res.violate(f"{engine}|noop-changed-observation", {"engine": engine, "op": o.op, "before": prev.brief(), "after": o.brief()})
            if sum(1 for e in o.log if e[0] == "recv") != 1:
                res.violate(f"{engine}|noop-recv-count", {"n": sum(1 for e in o.log if e[0] == "recv")})
        if tree.legal(cur):
            res.inconclusive = "illegal-config"
            return
        prev = o


def check_case(case) -> CaseResult:
    spec, history = case["spec"], case["history"]
    res = CaseResult()
    tree = Tree(spec)
    idx = Index(spec)
    nt: list = []
    for engine in ("sync", "async"):
        _check_run(engine, spec, history, tree, idx, res, nt)
        res.extra_evals += 1
    res.extra_evals -= 1
    res.nontrivial = bool(nt)
    res.sample = {"states": {n.id: n.kind for n in tree.nodes.values()}, "history": history,
                  "n_transitions": len(idx.trans)}
    return res
