"""C07 — failure containment and transition atomicity (fault enumeration)."""
from __future__ import annotations

import copy

from hypothesis import strategies as st

from .. import drivers, findings, gen
from ..render import Index, finalize, state_transitions, walk_states
from ..runner import CaseResult, case_fp
from ..tree import Tree

PROPERTY = "C07"
LEVEL = "fault_enumeration"
TECHNIQUE = "fault injection by enumeration over user-code call sites of generated runs, judged against the fault-free twin run (metamorphic); aborting errors generated as machine features"
LEVEL_TEXT = ("every user-code call site of each generated run (actions, built-in callbacks, plugin hooks, subscriber, emit "
              "listener) is made to raise, one at a time (thorough: all sites of every case; quick: a drawn subset) plus "
              "drawn pairs; the faulty run is compared with the fault-free twin")
RULE = (
    "Campaign faults: generated machines (marker actions, assign, nested choose/pure/enqueueActions, emit, hooks, "
    "subscriber, listener; table guards that never read the context; no raise so that a skipped action cannot change "
    "later selection) x histories of <=10 events. The fault-free run records the N call sites of user code; each chosen "
    "site (or pair) is made to raise InjectedFault and the run is repeated. Oracle: hook/subscriber/listener fault -> "
    "identical observations and identical log - including what a second, never-failing subscriber registered behind the "
    "faulted one is shown; action or built-in-callback fault -> identical configurations, status, "
    "transitions, events, and an action log equal to the twin's minus one contiguous block that starts at the faulted "
    "action and lies inside its own (innermost) action list, context equal modulo counters assigned by the skipped "
    "remainder, on_action_error called once for it; then the on_action_error hook reporting that fault is made to raise "
    "too (a site that exists only in the faulted run) and nothing may change relative to the single-fault run. Campaign abort: machines with one injected aborting feature "
    "(unimplemented action at a drawn list position, unregistered service, unresolvable target, async action under the "
    "sync engine; on `on` and on `always` transitions) plus timer templates; oracle: error is an XStateMachineError subclass raised by sync send()/contained "
    "by async, configuration equals the one before the aborted transition, the next event is processed, an `after` "
    "timer of a rolled-back state still fires - exactly once, also when the abort struck in a child's exit list before "
    "the timed/invoking parent was reached (async: its service keeps exactly one running instance); and nothing "
    "started by a target state that had already been entered when a deeper entry list aborted survives the rollback. Non-trivial = fault inside a multi-state transition's entry/exit list or "
    "a nested expansion or during start(); distinct = distinct (case, fault plan)."
)
ASSUMPTIONS = [
    "guard call sites are not faulted here (a raising guard legitimately changes selection: C06)",
    "output/delay callables are not faulted (their documented fallback changes the value they produce)",
]
BASE = dict(after=False, invoke=False, guards="tab", p_guard=30, always=True, ondone=True, nested_builtins=True,
            p_handler=40, max_iterations=30, history=True, two_markers=True, assign=True)
BASE["raise"] = False
FAULTABLE = ("action", "hook", "subscriber", "listener", "callable")


def plan(tier):
    q = tier == "quick"
    return [{"name": "main", "examples": 3000 if q else 20000}, {"name": "abort", "examples": 2400 if q else 20000}]


# ----------------------------------------------------------------------------- generators
@st.composite
def _fault_case(draw, tier):
    prof = gen.profile(**BASE)
    spec = draw(gen.machine_specs(prof))
    hist = draw(gen.histories(prof, max_len=10))
    # emit actions sprinkled into entry lists so the emit listener has call sites
    d = gen.D(draw)
    for sid, s in walk_states(spec):
        if s["kind"] not in ("history",) and d.chance(15):
            s.setdefault("entry", []).append({"k": "emit", "event": "NOTE"})
    picks = draw(st.lists(st.integers(0, 10 ** 6), min_size=4, max_size=8))
    pairs = draw(st.lists(st.tuples(st.integers(0, 10 ** 6), st.integers(0, 10 ** 6)), min_size=1, max_size=2))
    return {"spec": spec, "history": hist, "engine": draw(st.sampled_from(["sync", "async"])), "picks": picks,
            "pairs": [list(p) for p in pairs], "all_sites": tier == "thorough", "kind": "faults"}


@st.composite
def _abort_case(draw, tier):
    d = gen.D(draw)
    engine = draw(st.sampled_from(["sync", "async"]))
    if d.chance(35):
        # timer template: S has `after D -> T`; BAD aborts a transition out of S at time t0 < D
        delay = d.pick([20, 50, 100])
        t0 = d.pick([1, delay // 2, delay - 1])
        depth = d.int(0, 2)
        bad_kind = d.pick(["missing-action-transition", "missing-action-entry", "unresolvable-target", "missing-service",
                           "missing-action-exit", "missing-action-exit", "missing-action-exit-child", "missing-action-exit-child",
                           "missing-entry-below-timed-target", "missing-entry-below-timed-target"])
        return {"kind": "abort-timer", "engine": engine, "delay": delay, "t0": t0, "depth": depth, "bad": bad_kind}
    prof = gen.profile(**dict(BASE, nested_builtins=False, two_markers=False))
    spec = draw(gen.machine_specs(prof))
    hist = draw(gen.histories(prof, max_len=8))
    # inject one aborting feature into a drawn transition
    cands = []
    for sid, s in walk_states(spec):
        for fam, key, i, t in state_transitions(s):
            if not t.get("null") and fam in ("on", "always"):
                cands.append((sid, fam, key, i))
    if not cands:
        return {"kind": "abort", "engine": engine, "spec": spec, "history": hist, "bad": None}
    alw = [c for c in cands if c[1] == "always"]
    sid, fam, key, i = d.pick(alw) if alw and d.chance(50) else d.pick(cands)
    bad_mk = None
    bad = d.pick(["missing-action", "unresolvable-target", "async-action", "missing-entry-action"])
    if bad == "async-action" and engine == "async":
        bad = "missing-action"
    tree = Tree(spec)
    for sid2, s in walk_states(spec):
        if sid2 != sid:
            continue
        for fam2, key2, i2, t in state_transitions(s):
            if (fam2, key2, i2) == (fam, key, i):
                bad_mk = t.get("mk")
                if bad == "missing-action":
                    pos = d.int(1, len(t["actions"]))
                    t["actions"].insert(pos, {"k": "user", "name": "u_missing"})
                elif bad == "async-action":
                    pos = d.int(1, len(t["actions"]))
                    t["actions"].insert(pos, {"k": "user", "name": "u_async"})
                elif bad == "unresolvable-target":
                    t["sp"] = {"tstr": "no_such_state_anywhere"}
                    t["target"] = t.get("target") or []
                elif bad == "missing-entry-action":
                    # the missing action sits in the entry list of the transition's target
                    tg = t.get("target")
                    if tg is None or tree[tree.mid + ("." + ".".join(tg) if tg else "")].kind == "history":
                        t["actions"].append({"k": "user", "name": "u_missing"})
                    else:
                        ts = spec["root"]
                        for k in tg:
                            ts = next(c for c in ts["children"] if c["key"] == k)
                        ts.setdefault("entry", []).append({"k": "user", "name": "u_missing"})
    spec["impls"] = {"u_missing": {"k": "missing"}, "u_async": {"k": "async"}}
    return {"kind": "abort", "engine": engine, "spec": spec, "history": hist, "bad": bad, "bad_mk": bad_mk, "bad_family": fam}


def strategy(tier, campaign):
    return _fault_case(tier) if campaign == "main" else _abort_case(tier)


# ----------------------------------------------------------------------------- fault twins
def _lists(spec):
    """marker name -> (list id, index, list of action specs) for every (nested) action list."""
    where = {}

    def visit(lst, lid):
        for i, a in enumerate(lst or []):
            if a["k"] == "mark":
                where[a["name"]] = (lid, i, lst)
            elif a["k"] == "choose":
                for bi, b in enumerate(a["branches"]):
                    visit(b.get("actions"), f"{lid}/choose{i}.{bi}")
            elif a["k"] in ("pure", "enqueue"):
                visit(a.get("actions"), f"{lid}/{a['k']}{i}")
                first = next((x["name"] for x in a.get("actions", []) if x["k"] == "mark"), "?")
                key = ("pure.get:" if a["k"] == "pure" else "enqueue.callback:") + first
                where[key] = (lid, i, lst)

    for sid, s in walk_states(spec):
        visit(s.get("entry"), "entry:" + sid)
        visit(s.get("exit"), "exit:" + sid)
        for fam, key, i, t in state_transitions(s):
            visit(t.get("actions"), "t:" + str(t.get("mk")))
    return where


def _markers_in(lst):
    out = []
    for a in lst or []:
        if a["k"] == "mark":
            out.append(a["name"])
        elif a["k"] == "choose":
            for b in a["branches"]:
                out += _markers_in(b.get("actions"))
        elif a["k"] in ("pure", "enqueue"):
            out += _markers_in(a.get("actions"))
    return out


def _has_assign(lst):
    for a in lst or []:
        if a["k"] == "assign":
            return True
        if a["k"] == "choose" and any(_has_assign(b.get("actions")) for b in a["branches"]):
            return True
        if a["k"] in ("pure", "enqueue") and _has_assign(a.get("actions")):
            return True
    return False


def _skeleton(run, ignore_n=False):
    out = []
    for o in run.steps:
        ctx = dict(o.ctx or {})
        if ignore_n:
            ctx.pop("n", None)
        out.append({
            "cfg": sorted(o.cfg), "status": o.status, "ctx": ctx, "exc": o.exc, "output": o.output,
            "flow": [(e[0], e[1]) if e[0] != "trans" else ("trans", e[1], tuple(sorted(e[2])), tuple(sorted(e[3])))
                     for e in o.log if e[0] in ("trans", "recv", "life")],
            "subs": [tuple(sorted(e[1])) for e in o.log if e[0] == "sub"],
            "subs2": [tuple(sorted(e[1])) for e in o.log if e[0] == "sub2"],
        })
    return out


def _acts(run):
    return [e[1] for o in run.steps for e in o.log if e[0] == "act"]


def _aerr(run):
    return [e[1] for o in run.steps for e in o.log if e[0] == "aerr"]


def _judge_twin(engine, spec, free, faulty, site, where, res, tagsfx):
    """site = (index, kind, name) of the single action-class fault, or None for hook-class only."""
    kind = site[1] if site else "hook"
    if faulty.aborted or free.aborted:
        res.inconclusive = "budget"
        return
    if site is None or kind in ("hook", "subscriber", "listener"):
        if _skeleton(free) != _skeleton(faulty):
            a, b = _skeleton(free), _skeleton(faulty)
            i = next((k for k, (x, y) in enumerate(zip(a, b)) if x != y), -1)
            fld = next((f for f in a[i] if a[i][f] != b[i][f]), "?") if i >= 0 else "len"
            res.violate(f"{engine}|observer-fault-changed-{fld}|{site[2] if site else 'multi'}",
                        {"engine": engine, "site": site, "step": i})
            return
        if [e[1] for o in free.steps for e in o.log if e[0] == "emit"] != [e[1] for o in faulty.steps for e in o.log if e[0] == "emit"]:
            res.violate(f"{engine}|observer-fault-changed-emits|{site[2] if site else 'multi'}", {"engine": engine, "site": site})
        if _acts(free) != _acts(faulty):
            res.violate(f"{engine}|observer-fault-changed-actions|{site[2] if site else 'multi'}", {"engine": engine, "site": site})
        if _aerr(free) != _aerr(faulty):
            res.violate(f"{engine}|observer-fault-reported-as-action-error", {"engine": engine, "site": site})
        return
    # ---- action / built-in callback fault
    name = site[2]
    if name not in where:
        return
    lid, pos, lst = where[name]
    remainder = lst[pos + 1:] if kind == "action" else lst[pos:]  # a builtin's own nested actions are skipped too
    allowed = set(_markers_in(lst[pos:] if kind == "action" else lst[pos:]))
    fa, xa = _acts(free), _acts(faulty)
    # xa must equal fa minus one contiguous block drawn from `allowed`, starting at the faulted action
    i = 0
    while i < len(xa) and i < len(fa) and xa[i] == fa[i]:
        i += 1
    gap = len(fa) - len(xa)
    ok = gap >= (1 if kind == "action" else 0) and fa[i + gap:] == xa[i:] and all(x in allowed for x in fa[i:i + gap])
    if kind == "action":
        # the removed block must start at the faulted action itself. The first index where the two
        # logs differ is only the *latest* possible start (a repeated marker makes the alignment
        # ambiguous: [t0 x5 t0 x4] minus [t0 x5] and minus [x5 t0] both give [t0 x4]), so try
        # every start that yields the faulty log
        ok = False
        for j in range(max(0, i - gap), i + 1):
            if gap > 0 and j < len(fa) and fa[j] == name and fa[:j] + fa[j + gap:] == xa and all(x in allowed for x in fa[j:j + gap]):
                ok = True
                break
    if not ok:
        res.violate(f"{engine}|action-fault-not-contained|{lid.split(':')[0].split('/')[0]}|{tagsfx}",
                    {"engine": engine, "site": site, "list": lid, "free_acts": fa[max(0, i - 3): i + 8], "faulty_acts": xa[max(0, i - 3): i + 8], "gap": gap})
        return
    ign = _has_assign(remainder)
    if _skeleton(free, ign) != _skeleton(faulty, ign):
        a, b = _skeleton(free, ign), _skeleton(faulty, ign)
        k = next((k for k, (x, y) in enumerate(zip(a, b)) if x != y), -1)
        fld = next((f for f in a[k] if a[k][f] != b[k][f]), "?") if k >= 0 else "len"
        res.violate(f"{engine}|action-fault-changed-{fld}|{lid.split(':')[0].split('/')[0]}|{tagsfx}",
                    {"engine": engine, "site": site, "step": k, "free": a[k][fld] if k >= 0 else None, "faulty": b[k][fld] if k >= 0 else None})
        return
    new_err = len(_aerr(faulty)) - len(_aerr(free))
    if new_err != 1:
        res.violate(f"{engine}|on_action_error-called-{new_err}-times|{kind}|{tagsfx}", {"engine": engine, "site": site, "aerr": _aerr(faulty)[-3:]})


def check_faults(case, res: CaseResult):
    spec, history, engine = case["spec"], case["history"], case["engine"]

    def runf(spec_, history_, opts_):
        # a second, never-failing subscriber is registered behind the faultable one
        return drivers.ENGINES[engine](spec_, history_, dict(opts_, witness_subscriber=True))

    free = runf(spec, history, {"record_sites": True})
    if free.create_exc or free.aborted:
        res.inconclusive = free.aborted or "create-exc"
        return
    sites = [s for s in free.rec.sites if s[1] in FAULTABLE and not (s[1] == "callable" and s[2].split(":")[0] not in ("pure.get", "enqueue.callback"))]
    if not sites:
        return
    where = _lists(spec)
    idx = Index(spec)
    start_sites = set()
    n_start = 0
    for e in free.steps[0].log:
        pass
    # sites that occur during start(): the first step's share of the site sequence
    # (approximation: sites are recorded in call order, start() comes first)
    if case.get("all_sites"):
        chosen = sites[:80]
    else:
        chosen = []
        for p in case["picks"]:
            s = sites[p % len(sites)]
            if s not in chosen:
                chosen.append(s)
    keys = []
    n_report = 0
    for site in chosen:
        faulty = runf(spec, history, {"faults": [site[0]]})
        res.extra_evals += 1
        lid = where.get(site[2], ("?", 0, []))[0]
        nested = "/" in lid
        tagsfx = "nested" if nested else "plain"
        _judge_twin(engine, spec, free, faulty, site, where, res, tagsfx)
        if site[1] in ("action", "callable") and n_report < 3 and not faulty.aborted:
            # the report of that fault is itself a call into user code (on_action_error): make
            # that hook raise as well; nothing may change relative to the single-fault run
            n_report += 1
            rerun = runf(spec, history, {"faults": [site[0]], "record_sites": True})
            res.extra_evals += 1
            hooks = [h for h in rerun.rec.sites if h[1] == "hook" and h[2] == "on_action_error" and h[0] > site[0]]
            if hooks and not rerun.aborted:
                both = runf(spec, history, {"faults": [site[0], hooks[0][0]]})
                res.extra_evals += 1
                _judge_twin(engine, spec, rerun, both, hooks[0], where, res, "report-of-" + site[1])
                res.classes.append("fault:on_action_error-of-" + site[1])
        if site[1] in ("action", "callable") and (nested or lid.startswith(("entry:", "exit:"))):
            keys.append(case_fp([case_fp(case["spec"]), history, site[0]]))
        res.classes.append("fault:" + site[1] + (":nested" if nested else ""))
    # pairs: at least one observer-class site, at most one action-class site
    for a, b in case["pairs"]:
        s1, s2 = sites[a % len(sites)], sites[b % len(sites)]
        obs = [s for s in (s1, s2) if s[1] in ("hook", "subscriber", "listener")]
        act = [s for s in (s1, s2) if s[1] in ("action", "callable")]
        if len(act) > 1 or s1 == s2:
            continue
        if act and obs and obs[0][0] > act[0][0]:
            continue  # the observer site index would shift after the action fault
        faulty = runf(spec, history, {"faults": [s1[0], s2[0]]})
        res.extra_evals += 1
        lid = where.get(act[0][2], ("?", 0, []))[0] if act else "?"
        _judge_twin(engine, spec, free, faulty, act[0] if act else None, where, res, "pair")
        res.classes.append("fault:pair")
    res.nontrivial = bool(keys)
    res.nontrivial_keys = keys


# ----------------------------------------------------------------------------- aborting errors
def _timer_spec(case):
    delay, depth, bad = case["delay"], case["depth"], case["bad"]
    # S (possibly nested `depth` levels below a compound wrapper) has after->T and on BAD -> X (aborting)
    badT = {"target": ["x"], "actions": []}
    x = {"key": "x", "kind": "atomic"}
    if bad == "missing-action-transition":
        badT["actions"].append({"k": "user", "name": "u_missing"})
    elif bad == "missing-action-entry":
        x["entry"] = [{"k": "user", "name": "u_missing"}]
    elif bad == "unresolvable-target":
        badT["sp"] = {"tstr": "no_such_state_anywhere"}
    elif bad == "missing-service":
        x["invoke"] = [{"src": "svc_missing", "id": "im"}]
    s = {"key": "s", "kind": "atomic", "after": [[delay, [{"target": ["t"], "actions": []}]]], "on": [["BAD", [badT]], ["PING", [{"target": None, "actions": []}]]]}
    if bad == "missing-action-exit":
        # the abort happens while the timed state itself is being exited (its timer is already
        # cancelled); the timed transition stays inside the state so that it can complete later
        s = {"key": "s", "kind": "compound", "initial": "c", "exit": [{"k": "user", "name": "u_missing"}],
             "after": [[delay, [{"target": ["s", "late"], "actions": []}]]],
             "on": [["BAD", [badT]], ["PING", [{"target": None, "actions": []}]]],
             "children": [{"key": "c", "kind": "atomic"}, {"key": "late", "kind": "atomic"}]}
        depth = 0
    services = {}
    if bad == "missing-entry-below-timed-target":
        # the *target* of the aborting transition owns a timer (and, async, a service) and has been
        # entered - its tasks started - when the entry list of its child aborts: after the rollback
        # the target is not active, so nothing it started may still be running or fire
        x = {"key": "x", "kind": "compound", "initial": "x1",
             "after": [[delay, [{"target": None, "actions": [{"k": "user", "name": "tick"}]}]]],
             "children": [{"key": "x1", "kind": "atomic", "entry": [{"k": "user", "name": "u_missing"}]}]}
        if case["engine"] == "async":
            services["svc"] = {"k": "coro", "outcome": "return", "ms": delay, "value": "$call"}
            x["invoke"] = [{"src": "svc", "id": "iv", "onDone": [{"target": None, "actions": [{"k": "user", "name": "svcdone"}]}]}]
        s = {"key": "s", "kind": "atomic", "on": [["BAD", [badT]], ["PING", [{"target": None, "actions": []}]]]}
        depth = 0
    if bad == "missing-action-exit-child":
        # the abort happens in the exit list of the *child*: the timed (and, async, invoking) parent
        # is in the exit set but - depending on the engine - was not reached yet. Whatever was
        # cancelled must be re-armed, whatever was not must not get a second timer / service.
        s = {"key": "s", "kind": "compound", "initial": "c",
             "after": [[delay, [{"target": None, "actions": [{"k": "user", "name": "tick"}]}]]],
             "on": [["BAD", [badT]], ["PING", [{"target": None, "actions": []}]]],
             "children": [{"key": "c", "kind": "atomic", "exit": [{"k": "user", "name": "u_missing"}]}]}
        if case["engine"] == "async":
            services["svc"] = {"k": "coro", "outcome": "return", "ms": delay * 4, "value": "$call"}
            s["invoke"] = [{"src": "svc", "id": "iv"}]
        depth = 0
    inner = s
    for i in range(depth):
        inner = {"key": "s", "kind": "compound", "initial": inner["key"] if i else "s", "children": [inner],
                 "after": inner.pop("after"), "on": inner.pop("on")}
        # the timed state is the wrapper; its child is plain
        inner["children"][0]["key"] = "c"
        inner["initial"] = "c"
    spec = {"id": "m", "root": {"key": "m", "kind": "compound", "initial": "s", "children": [inner, {"key": "t", "kind": "atomic"}, x]},
            "context": {"n": 0}, "maxIterations": 30, "tables": {}, "services": services, "impls": {"u_missing": {"k": "missing"}}}
    finalize(spec)
    return spec


def check_abort_timer(case, res: CaseResult):
    engine = case["engine"]
    spec = _timer_spec(case)
    delay, t0 = case["delay"], case["t0"]
    hist = [["advance", t0], ["send", "BAD", 1], ["send", "PING", 2], ["advance", delay * 2 + 10]]
    run = drivers.ENGINES[engine](spec, hist)
    if run.create_exc or run.aborted:
        res.inconclusive = run.aborted or ("create:" + run.create_exc)
        return
    steps = run.steps
    bad = steps[2]
    before = steps[1]
    shape = case["bad"]
    if engine == "sync":
        if not bad.exc or not bad.extra.get("exc_is_lib"):
            res.violate(f"sync|abort-not-raised-as-library-error|{shape}", {"exc": bad.exc, "msg": bad.extra.get("exc_msg")})
    if bad.cfg != before.cfg:
        res.violate(f"{engine}|abort-left-configuration-changed|{shape}", {"before": sorted(before.cfg), "after": sorted(bad.cfg)})
        return
    if bad.status != "running":
        res.violate(f"{engine}|abort-changed-status|{shape}", {"status": bad.status})
        return
    ping = steps[3]
    if not any(e[0] == "recv" and e[1] == "PING" for e in ping.log) or not any(e[0] == "trans" for e in ping.log):
        res.violate(f"{engine}|interpreter-dead-after-abort|{shape}", {"log": [e[:2] for e in ping.log][:6]})
    last = steps[4]
    if shape == "missing-entry-below-timed-target":
        names = [e[1] for o in steps for e in o.log if e[0] == "act"]
        if "tick" in names or any(e[0] == "recv" and str(e[1]).startswith("after.") for o in steps for e in o.log):
            res.violate(f"{engine}|timer-of-rolled-back-target-still-fired|{shape}", {"delay": delay, "t0": t0})
        calls = [e for o in steps for e in o.log if e[0] == "svc" and e[1] == "call"]
        ended = [e for o in steps[:3] for e in o.log if e[0] == "svc" and e[1] in ("cancelled", "finish")]
        if len(calls) > len(ended) or "svcdone" in names:
            res.violate(f"{engine}|service-of-rolled-back-target-left-running|{shape}", {"calls": len(calls), "ended_by_rollback": len(ended)})
        res.nontrivial = True
        res.nontrivial_keys = [case_fp(case)]
        res.classes.append("abort-timer:" + shape)
        return
    if shape == "missing-action-exit-child":
        ticks = [e[5] for o in steps for e in o.log if e[0] == "act" and e[1] == "tick"]
        if not ticks:
            res.violate(f"{engine}|after-timer-lost-by-rollback|{shape}", {"cfg": sorted(last.cfg), "delay": delay, "t0": t0})
        elif len(ticks) > 1:
            res.violate(f"{engine}|after-timer-armed-twice-by-rollback|{shape}", {"fired_at": ticks, "delay": delay, "t0": t0})
        calls = [e for o in steps for e in o.log if e[0] == "svc" and e[1] == "call"]
        cancels = [e for o in steps for e in o.log if e[0] == "svc" and e[1] == "cancelled"]
        if engine == "async" and len(calls) - len(cancels) != 1:
            res.violate(f"async|service-not-running-exactly-once-after-rollback|{shape}", {"calls": len(calls), "cancelled": len(cancels)})
        res.nontrivial = True
        res.nontrivial_keys = [case_fp(case)]
        res.classes.append("abort-timer:" + shape)
        return
    want = "m.s.late" if case["bad"] == "missing-action-exit" else "m.t"
    if want not in last.cfg:
        res.violate(f"{engine}|after-timer-lost-by-rollback|{shape}", {"cfg": sorted(last.cfg), "delay": delay, "t0": t0})
    res.nontrivial = True
    res.nontrivial_keys = [case_fp(case)]
    res.classes.append("abort-timer:" + shape)


def check_abort(case, res: CaseResult):
    engine = case["engine"]
    spec, history = case["spec"], case["history"]
    if not case.get("bad"):
        return
    run = drivers.ENGINES[engine](spec, history)
    if run.create_exc:
        from xstate_statemachine.exceptions import XStateMachineError

        if not isinstance(run.create_exc_obj, XStateMachineError):
            res.violate(f"{engine}|creation-raised-raw-exception|{case['bad']}", {"exc": run.create_exc})
        return
    if run.aborted:
        res.inconclusive = run.aborted
        return
    tree = Tree(spec)
    prev = None
    hit = False
    if run.steps and run.steps[0].exc:
        # the initial entry itself failed: start() propagates the error and the interpreter never
        # ran; that is a start-up failure, not a transition aborted midway
        if not run.steps[0].extra.get("exc_is_lib"):
            res.violate(f"{engine}|start-raised-raw-exception|{case['bad']}|{run.steps[0].exc}", {"msg": run.steps[0].extra.get("exc_msg")})
        res.classes.append("abort-in-start")
        return
    bad_mk = case.get("bad_mk")
    for k, o in enumerate(run.steps):
        aborted_here = False
        # sync: the aborting error must be raised from the call that was processing. The transition's
        # leading marker ran but its on_transition hook never came: it was aborted in this step.
        if engine == "sync" and bad_mk and not o.exc and case["bad"] in ("missing-action", "async-action", "missing-entry-action"):
            ran = [i_ for i_, e in enumerate(o.log) if e[0] == "act" and e[1] == bad_mk]
            done = [i_ for i_, e in enumerate(o.log) if e[0] == "trans" and e[1] == bad_mk]
            if ran and (not done or done[-1] < ran[-1]):
                res.violate(f"sync|abort-not-raised-from-the-call|{case['bad']}|{case.get('bad_family')}", {"op": o.op, "transition": bad_mk})
                return
        if engine == "sync" and o.exc:
            aborted_here = True
            if not o.extra.get("exc_is_lib"):
                res.violate(f"sync|abort-raised-raw-exception|{case['bad']}|{o.exc}", {"exc": o.exc, "msg": o.extra.get("exc_msg"), "op": o.op})
        # legality after every step (rollback must restore a configuration that exists)
        probs = tree.legal(o.cfg)
        if probs and o.status in ("running",):
            res.violate(f"{engine}|illegal-configuration-after-abort|{case['bad']}", {"op": o.op, "problems": probs[:4], "cfg": sorted(o.cfg)})
            return
        if aborted_here:
            hit = True
            # configuration == the one after the last completed transition of this step (or before it)
            last_cfg = prev.cfg if prev is not None else frozenset()
            for e in o.log:
                if e[0] == "trans":
                    last_cfg = e[4] if e[4] is not None else e[3]
            if o.cfg != last_cfg:
                res.violate(f"sync|abort-not-rolled-back|{case['bad']}", {"op": o.op, "cfg": sorted(o.cfg), "expected": sorted(last_cfg)})
            if o.status != "running" and (prev is None or prev.status == "running") and o.op[0] != "start":
                res.violate(f"sync|abort-changed-status|{case['bad']}", {"status": o.status})
            # the next event must still be dequeued
            if k + 1 < len(run.steps) and run.steps[k + 1].op[0] == "send" and o.status == "running":
                nx = run.steps[k + 1]
                if not any(e[0] == "recv" for e in nx.log):
                    res.violate(f"sync|interpreter-dead-after-abort|{case['bad']}", {"next": nx.op})
        prev = o
    if engine == "async":
        # async contains the error: the run loop must be alive at the end unless the machine finished
        last = run.steps[-1]
        if last.status == "stopped":
            res.violate(f"async|run-loop-died|{case['bad']}", {"status": last.status})
        hit = True
    res.nontrivial = hit
    res.classes.append("abort:" + str(case["bad"]))


def check_case(case) -> CaseResult:
    res = CaseResult()
    kind = case.get("kind", "faults")
    if kind == "faults":
        check_faults(case, res)
        res.sample = {"engine": case["engine"], "history": case["history"], "picks": case["picks"][:3]}
    elif kind == "abort-timer":
        check_abort_timer(case, res)
        res.sample = {k: v for k, v in case.items()}
    else:
        check_abort(case, res)
        res.sample = {"engine": case["engine"], "bad": case.get("bad"), "history": case.get("history")}
    seen = set()
    uniq = []
    for t, d in res.violations:
        if t not in seen:
            seen.add(t)
            uniq.append((t, d))
    res.violations = uniq
    return res
