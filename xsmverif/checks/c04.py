"""C04 — run-to-completion and lossless, ordered event processing."""
from __future__ import annotations

import asyncio
import logging

from hypothesis import strategies as st

from .. import findings, gen, vthreads
from ..gen import D
from ..recorder import Recorder, StepBudgetExceeded, Tap, make_subscriber
from ..refsel import Event as REvent
from ..refsel import nominee_set, nominees, table_atoms
from ..render import Index, build, state_transitions, walk_states
from ..runner import CaseResult, case_fp
from ..tree import Tree
from ..vloop import LoopDeadlock, run_virtual

PROPERTY = "C04"
LEVEL = "exploration"
TECHNIQUE = "property-based testing over generated machines x generated producer schedules (virtual-time asyncio tasks; deterministic baton scheduler for the sync engine's threads with generated scheduling choices), judged by ordering/accounting laws over the event log"
RULE = (
    "Generated machines (hierarchy, parallel, guards, raise from transition/entry/always actions, always follow-ups, "
    "`after` timers, delayed self-sends, slow actions that sleep in virtual time in the middle of a macrostep) are fed "
    "by 2-4 concurrent producers, each sending 1-5 events tagged (producer, seq) at generated virtual times - asyncio "
    "tasks on the virtual loop for Interpreter; real threads under the baton scheduler (every choice of which runnable "
    "thread goes next is drawn by Hypothesis) for SyncInterpreter, next to the engine's own timer and delayed-send "
    "threads; some sends use send_events batches. Oracle: (1) every accepted (producer, seq) is dequeued exactly once; "
    "(2) per producer, dequeue order == send order; (3) no interleaving: every action executed after on_event_received(e) "
    "and before the next on_event_received was caused by e or by an eventless follow-up, so events raised by actions are "
    "handled after the macrostep that raised them; (4) at the final quiescent point no `always` transition is enabled "
    "(unless the run hit maxIterations); (5) transitions are serial: the `from` snapshot each on_transition hook reports "
    "equals the `to` snapshot of the previous one, from start() on. Slow actions also sit in `always`, entry and exit "
    "lists so that the initial macrostep itself suspends. Non-trivial = >=2 producers and >=1 send that landed while a macrostep was in "
    "flight (inside a slow action) or a raise during start(); distinct = distinct (machine, schedule)."
)
ASSUMPTIONS = [
    "the sync engine is explored at blocking calls (Event.wait / sleep / Thread.start / thread exit) only; bytecode-level "
    "preemption (e.g. the check-then-act window at the end of _process_event_queue) is not reached by this scheduler",
    "machines never reach a terminal status, so every send is 'accepted while running'",
]
logging.disable(logging.CRITICAL)

BASE = dict(after=True, invoke=False, guards="tab", p_guard=35, always=True, ondone=True, nested_builtins=False,
            p_handler=45, max_iterations=30, history=True, final_under_root=False, raising_guards=False)
BASE["raise"] = True


def plan(tier):
    q = tier == "quick"
    return [{"name": "main", "examples": 2000 if q else 40000}]


@st.composite
def _case(draw):
    prof = gen.profile(**BASE)
    spec = draw(gen.machine_specs(prof))
    d = D(draw)
    # slow actions in some transitions / entries; a delayed self-send here and there
    spec["impls"] = {"slow": {"k": "slow", "ms": d.pick([5, 20, 40])}}
    for sid, s in walk_states(spec):
        for fam, key, i, t in state_transitions(s):
            if not t.get("null") and fam == "on" and d.chance(20):
                t.setdefault("actions", []).append({"k": "user", "name": "slow"})
            if not t.get("null") and fam == "always" and d.chance(25):
                t.setdefault("actions", []).append({"k": "user", "name": "slow"})
            if not t.get("null") and fam == "on" and d.chance(8):
                t.setdefault("actions", []).append({"k": "raise", "event": d.pick(gen.RAISED), "delay": d.pick([5, 15])})
        if s["kind"] != "history" and d.chance(6):
            s.setdefault("entry", []).append({"k": "user", "name": "slow"})
        if s["kind"] != "history" and d.chance(6):
            s.setdefault("exit", []).append({"k": "user", "name": "slow"})
    nprod = d.int(2, 4)
    producers = []
    for p in range(nprod):
        evs = []
        for i in range(d.int(1, 5)):
            evs.append([d.pick([0, 0, 1, 5, 10, 20, 35]), d.pick(gen.EVENTS), "batch" if d.chance(12) else "send"])
        producers.append(evs)
    return {"spec": spec, "producers": producers, "engine": draw(st.sampled_from(["sync", "async"])),
            "choices": draw(st.lists(st.integers(0, 5), max_size=60)), "tail": d.pick([60, 200])}


def strategy(tier, campaign):
    return _case()


def _seq(p, i):
    return p * 1000 + i


def run_async(case, rec_out):
    from xstate_statemachine import Event, Interpreter, create_machine

    spec = case["spec"]
    sent = []

    async def main(loop):
        rec = Recorder(budget=12000, clock=loop.time)
        rec.iter_fn = lambda: loop.iterations
        rec_out.append(rec)
        cfg, logic = build(spec, rec, async_mode=True)
        it = Interpreter(create_machine(cfg, logic=logic))
        rec.interp = it
        it.use(Tap(rec))
        await it.start()

        async def producer(p, evs):
            i = 0
            k = 0
            while k < len(evs):
                dt, typ, how = evs[k]
                if dt:
                    await asyncio.sleep(dt / 1000.0)
                if how == "batch" and k + 1 < len(evs):
                    batch = [Event(evs[k][1], {"seq": _seq(p, i)}), Event(evs[k + 1][1], {"seq": _seq(p, i + 1)})]
                    if it.status == "running":
                        sent.extend([(p, i), (p, i + 1)])
                    await it.send_events(batch)
                    i += 2
                    k += 2
                else:
                    if it.status == "running":
                        sent.append((p, i))
                    await it.send(Event(typ, {"seq": _seq(p, i)}))
                    i += 1
                    k += 1

        tasks = [asyncio.ensure_future(producer(p, evs)) for p, evs in enumerate(case["producers"])]
        await asyncio.gather(*tasks)
        await asyncio.sleep(case["tail"] / 1000.0)
        from ..drivers import _quiesce

        await _quiesce(it, loop)
        cfgset = frozenset(n.id for n in it._active_state_nodes)
        status = it.status
        rec.budget = 10 ** 9
        await it.stop()
        return cfgset, status

    out = run_virtual(main, max_iterations=400000)
    return sent, out


class Saturated(Exception):
    pass


def run_sync(case, rec_out):
    from xstate_statemachine import Event, SyncInterpreter, create_machine

    spec = case["spec"]
    sent = []
    it_choices = iter(case["choices"])
    sched = vthreads.Sched(chooser=lambda names: next(it_choices, 0))
    thr, tim = vthreads.install(sched)
    it = None
    try:
        rec = Recorder(budget=12000, clock=lambda: sched.now)
        rec_out.append(rec)
        cfg, logic = build(spec, rec, sleeper=sched.sleep)
        it = SyncInterpreter(create_machine(cfg, logic=logic))
        rec.interp = it
        it.use(Tap(rec))
        it.start()
        errors = []

        def producer(p, evs):
            try:
                i = 0
                k = 0
                while k < len(evs):
                    dt, typ, how = evs[k]
                    if dt:
                        sched.sleep(dt / 1000.0)
                    if how == "batch" and k + 1 < len(evs):
                        batch = [Event(evs[k][1], {"seq": _seq(p, i)}), Event(evs[k + 1][1], {"seq": _seq(p, i + 1)})]
                        if it.status == "running":
                            sent.extend([(p, i), (p, i + 1)])
                        it.send_events(batch)
                        i += 2
                        k += 2
                    else:
                        if it.status == "running":
                            sent.append((p, i))
                        it.send(Event(typ, {"seq": _seq(p, i)}))
                        i += 1
                        k += 1
            except StepBudgetExceeded:
                raise
            except Exception as e:  # noqa
                errors.append(type(e).__name__ + ":" + str(e)[:80])

        threads = [thr.Thread(target=producer, args=(p, evs), name=f"producer-{p}") for p, evs in enumerate(case["producers"])]
        for t in threads:
            t.start()
        for t in threads:
            t.join()
        sched.advance(case["tail"] / 1000.0)
        sched.settle()
        # slow entry/exit actions plus self re-arming timers can keep the engine busy past the
        # tail: give it more virtual time; a machine that never goes idle is not judged at "the end"
        for _ in range(40):
            if rec.blown or not (it._is_processing or it._event_queue):
                break
            sched.advance(0.1)
            sched.settle()
        if rec.blown:
            raise StepBudgetExceeded("blown")
        if it._is_processing or it._event_queue:
            raise Saturated()
        cfgset = frozenset(n.id for n in it._active_state_nodes)
        status = it.status
        return sent, (cfgset, status), errors
    finally:
        try:
            if it is not None:
                rec_out[0].budget = 10 ** 9
                it.stop()
        except BaseException:  # noqa
            pass
        sched.shutdown()
        vthreads.uninstall()


def check_case(case) -> CaseResult:
    res = CaseResult()
    spec, engine = case["spec"], case["engine"]
    tree = Tree(spec)
    idx = Index(spec)
    rec_out = []
    errors = []
    try:
        if engine == "async":
            sent, (cfgset, status) = run_async(case, rec_out)
        else:
            sent, (cfgset, status), errors = run_sync(case, rec_out)
    except StepBudgetExceeded:
        res.inconclusive = "budget"
        return res
    except (LoopDeadlock, vthreads.Deadlock):
        res.inconclusive = "deadlock"
        return res
    except Saturated:
        res.inconclusive = "never-idle"
        return res
    rec = rec_out[0]
    if rec.blown:
        res.inconclusive = "budget"
        return res
    log = rec.log
    res.sample = {"engine": engine, "producers": case["producers"], "choices": case["choices"][:10], "n_events_dequeued": sum(1 for e in log if e[0] == "recv")}
    if errors:
        res.violate(f"{engine}|send-raised-in-producer|{errors[0].split(':')[0]}", {"errors": errors[:3]})
    if status != "running":
        res.inconclusive = "terminal-status:" + str(status)
        return res
    maxit = spec.get("maxIterations") or 1000
    # ---- (1) exactly once, (2) per-producer order
    recv_ext = [e[2] for e in log if e[0] == "recv" and e[2] is not None]
    want = sorted(_seq(p, i) for p, i in sent)
    cut = False
    n_in_a_row = 0
    for e in log:
        if e[0] == "trans" and e[6] == "":
            n_in_a_row += 1
            if n_in_a_row >= maxit:
                cut = True
        elif e[0] == "recv":
            n_in_a_row = 0
    if engine == "sync":
        # the sync bound discards the queue (by design) when one drain exceeds maxIterations self-fed events
        pass
    got = sorted(recv_ext)
    if got != want:
        lost = sorted(set(want) - set(got))
        dup = sorted({x for x in got if got.count(x) > 1})
        extra = sorted(set(got) - set(want))
        if lost and not cut and len([e for e in log if e[0] == "recv"]) < maxit:
            res.violate(f"{engine}|event-lost", {"engine": engine, "lost": lost[:6], "sent": len(want), "dequeued": len(got)})
        elif lost:
            res.inconclusive = "cut-or-bound"
        if dup:
            res.violate(f"{engine}|event-duplicated", {"engine": engine, "dup": dup[:6]})
        if extra:
            res.violate(f"{engine}|event-from-nowhere", {"engine": engine, "extra": extra[:6]})
    for p in range(len(case["producers"])):
        mine = [s for s in recv_ext if s // 1000 == p]
        if mine != sorted(mine):
            res.violate(f"{engine}|producer-order-violated", {"engine": engine, "producer": p, "dequeued": mine})
            break
    # ---- (3) no interleaving
    cur = None
    in_flight_send = False
    slow_depth = 0
    for e in log:
        if e[0] == "recv":
            if slow_depth:
                res.violate(f"{engine}|event-dequeued-during-slow-action", {"engine": engine, "event": e[1], "seq": e[2]})
                break
            cur = (e[1], e[2])
        elif e[0] == "act":
            if e[1].endswith(":begin"):
                slow_depth += 1
            elif e[1].endswith(":end"):
                slow_depth = max(0, slow_depth - 1)
            ev = (e[2], e[3])
            if cur is None:
                continue  # start()
            if ev != cur and ev[0] != "":
                res.violate(f"{engine}|interleaved-macrosteps", {"engine": engine, "processing": cur, "action": e[1], "action_event": ev})
                break
    # ---- (5) transitions are serial: each one starts from the configuration the previous one left
    #      (two macrosteps in flight at once - e.g. the run loop consuming a raised event while
    #      start() is still settling - show up as a transition whose `from` snapshot was taken
    #      before another transition completed)
    prev_to = None
    for e in log:
        if e[0] != "trans":
            continue
        if e[6] == "___xstate_statemachine_init___":
            continue  # the sync engine reports its init pseudo-transition after the initial settle
        if prev_to is not None and e[2] != prev_to:
            res.violate(f"{engine}|transition-started-from-stale-configuration",
                        {"engine": engine, "tid": e[1], "event": e[6], "from": sorted(e[2]), "previous_to": sorted(prev_to)})
            break
        prev_to = e[3]
    # ---- non-triviality: a send landed while a slow action was running
    begin = None
    intervals = []
    for e in log:
        if e[0] == "act" and e[1].endswith(":begin"):
            begin = e[5]
        elif e[0] == "act" and e[1].endswith(":end") and begin is not None:
            intervals.append((begin, e[5]))
            begin = None
    t_send = {}
    for p, evs in enumerate(case["producers"]):
        t = 0
        for dt, typ, how in evs:
            t += dt
            for a, b in intervals:
                if a - 1e-9 <= t / 1000.0 <= b + 1e-9 and b > a:
                    res.nontrivial = True
    # ---- (4) settled at the end
    epoch = sum(1 for e in log if e[0] == "trans" and e[6] != "___xstate_statemachine_init___")
    if not cut and not tree.legal(cfgset):
        atoms = table_atoms(spec, epoch, set(cfgset))
        en = nominee_set(nominees(idx, set(cfgset), REvent("always"), atoms))
        if en:
            res.violate(f"{engine}|unsettled-always-at-quiescence", {"engine": engine, "enabled": [t.tid for t in en], "config": sorted(cfgset)})
    seen = set()
    uniq = []
    for t, d_ in res.violations:
        if t not in seen:
            seen.add(t)
            uniq.append((t, d_))
    res.violations = uniq
    return res
