"""C04 — run-to-completion and lossless, ordered event processing."""
from __future__ import annotations

import asyncio
import json
import logging

from hypothesis import strategies as st

from .. import findings, gen, vthreads
from ..gen import D
from ..recorder import Recorder, StepBudgetExceeded, Tap, make_subscriber
from ..refsel import Event as REvent
from ..refsel import nominee_set, nominees, table_atoms
from ..render import Index, build, state_transitions, walk_states
from ..runner import CaseResult, case_fp
from ..tree import Tree
from ..vloop import LoopDeadlock, run_virtual

PROPERTY = "C04"
LEVEL = "exploration"
TECHNIQUE = "property-based testing over generated machines x generated producer schedules (virtual-time asyncio tasks; deterministic baton scheduler for the sync engine's threads with generated scheduling choices), judged by ordering/accounting laws over the event log"
RULE = (
    "Generated machines (hierarchy, parallel, guards, raise from transition/entry/always actions, always follow-ups, "
    "`after` timers, delayed self-sends, slow actions that sleep in virtual time in the middle of a macrostep) are fed "
    "by 2-4 concurrent producers, each sending 1-5 events tagged (producer, seq) at generated virtual times - asyncio "
    "tasks on the virtual loop for Interpreter; real threads under the baton scheduler (every choice of which runnable "
    "thread goes next is drawn by Hypothesis) for SyncInterpreter, next to the engine's own timer and delayed-send "
    "threads; some sends use send_events batches. Oracle: (1) every accepted (producer, seq) is dequeued exactly once; "
    "(2) per producer, dequeue order == send order; (3) no interleaving: every action executed after on_event_received(e) "
    "and before the next on_event_received was caused by e or by an eventless follow-up, so events raised by actions are "
    "handled after the macrostep that raised them; (4) at the final quiescent point no `always` transition is enabled "
    "(unless the run hit maxIterations); (5) transitions are serial: the `from` snapshot each on_transition hook reports "
    "equals the `to` snapshot of the previous one, from start() on. Slow actions also sit in `always`, entry and exit "
    "lists so that the initial macrostep itself suspends. Campaign `preempt` (sync): the same cases with producers that "
    "collide in time and 1-5 generated line-level preemption points inside send/send_events/_process_event_queue "
    "(sys.settrace hands the baton over before the k-th line executes); plus an exhaustive sweep of every single "
    "preemption point (and nearby pairs) over five two-thread micro-scenarios (two senders, sender vs after-timer thread, "
    "batch vs sender, sender vs delayed-send thread, sender vs timer-driven transitions); extra law: when every thread is "
    "idle no accepted event is left sitting in the queue. Non-trivial = >=2 producers and >=1 send that landed while a macrostep was in "
    "flight (inside a slow action) or a raise during start(); distinct = distinct (machine, schedule)."
    ' Also: Sustained variant: every handled external event raises one ordinary event whose handler raises nothing (no self-fed chain longer than 1): every external and every raised event must be dequeued exactly once.'
)
ASSUMPTIONS = [
    "the sync engine is explored at blocking calls (Event.wait / sleep / Thread.start / thread exit) and, in campaign "
    "`preempt`, at generated line boundaries inside send / send_events / _process_event_queue (sys.settrace); preemption "
    "inside other functions or between bytecodes of one line is not explored",
    "machines never reach a terminal status, so every send is 'accepted while running'",
]
logging.disable(logging.CRITICAL)

BASE = dict(after=True, invoke=False, guards="tab", p_guard=35, always=True, ondone=True, nested_builtins=False,
            p_handler=45, max_iterations=30, history=True, final_under_root=False, raising_guards=False)
BASE["raise"] = True


def plan(tier):
    q = tier == "quick"
    return [{"name": "main", "examples": 1200 if q else 30000}, {"name": "preempt", "examples": 700 if q else 12000},
            {"name": "sustained", "examples": 240 if q else 4000, "shards": 4},
            {"name": "startphase", "examples": 250 if q else 8000}]


@st.composite
def _case(draw, preempt=False):
    prof = gen.profile(**BASE)
    spec = draw(gen.machine_specs(prof))
    d = D(draw)
    # slow actions in some transitions / entries; a delayed self-send here and there
    spec["impls"] = {"slow": {"k": "slow", "ms": d.pick([5, 20, 40])}}
    for sid, s in walk_states(spec):
        for fam, key, i, t in state_transitions(s):
            if not t.get("null") and fam == "on" and d.chance(20):
                t.setdefault("actions", []).append({"k": "user", "name": "slow"})
            if not t.get("null") and fam == "always" and d.chance(25):
                t.setdefault("actions", []).append({"k": "user", "name": "slow"})
            if not t.get("null") and fam == "on" and d.chance(8):
                t.setdefault("actions", []).append({"k": "raise", "event": d.pick(gen.RAISED), "delay": d.pick([5, 15])})
        if s["kind"] != "history" and d.chance(6):
            s.setdefault("entry", []).append({"k": "user", "name": "slow"})
        if s["kind"] != "history" and d.chance(6):
            s.setdefault("exit", []).append({"k": "user", "name": "slow"})
    nprod = d.int(2, 4)
    producers = []
    for p in range(nprod):
        evs = []
        for i in range(d.int(1, 5)):
            evs.append([d.pick([0, 0, 1, 5, 10, 20, 35]), d.pick(gen.EVENTS), "batch" if d.chance(12) else "send"])
        producers.append(evs)
    case = {"spec": spec, "producers": producers, "engine": draw(st.sampled_from(["sync", "async"])),
            "choices": draw(st.lists(st.integers(0, 5), max_size=60)), "tail": d.pick([60, 200])}
    if preempt:
        # sync engine, producers that collide in time, and 1-5 line-level preemption points inside
        # send / send_events / _process_event_queue (ordinal of the line event, across all threads)
        case["engine"] = "sync"
        for evs in producers:
            for e in evs:
                if d.chance(60):
                    e[0] = 0
        case["preempt"] = sorted(set(draw(st.lists(st.integers(1, 160), min_size=1, max_size=5))))
    return case


@st.composite
def _sustained(draw):
    """No self-feeding anywhere: TICK's handler suspends in a slow action and a producer lands the
    next TICK inside every suspended macrostep, for more than maxIterations macrosteps in a row."""
    from ..render import finalize

    d = D(draw)
    m = d.int(3, 8)
    n = m + d.int(1, 12)
    slow = d.pick([10, 20, 40])
    # variant: every A additionally raises one ordinary event R (handled by a no-op, raises nothing itself): the
    # longest self-fed chain is 1 however long the backlog lasts, so no bound may ever be reached
    raises = d.chance(50)
    a_actions = [{"k": "user", "name": "slow"}] + ([{"k": "raise", "event": "R"}] if raises else [])
    w = {"key": "w", "kind": "atomic", "on": [["A", [{"target": None, "actions": a_actions}]],
                                              ["B", [{"target": None, "actions": []}]],
                                              ["R", [{"target": None, "actions": []}]]]}
    spec = {"id": "m", "root": {"key": "m", "kind": "compound", "initial": "w", "children": [w]}, "context": {"n": 0},
            "maxIterations": m, "tables": {}, "services": {}, "impls": {"slow": {"k": "slow", "ms": slow}}}
    finalize(spec)
    prod = [[0, "A", "send"]] + [[slow // 2 if i == 0 else slow, "A", "send"] for i in range(n - 1)]
    others = [[[d.pick([0, 5, 15]), "B", "send"]] for _ in range(d.int(0, 2))]
    return {"spec": spec, "producers": [prod] + others, "engine": draw(st.sampled_from(["sync", "async"])),
            "choices": draw(st.lists(st.integers(0, 5), max_size=20)), "tail": 200 + slow * n, "max_chain": 1}


@st.composite
def _startphase(draw):
    """The initial macrostep itself is long: an initial leaf raises an event from its entry list and
    owns an `always` transition whose action sleeps, so start() suspends in the middle of its
    settle phase with a raised event already waiting (async engine: is the run loop up yet?)."""
    from ..render import finalize

    case = draw(_case())
    spec = case["spec"]
    d = D(draw)
    tree = Tree(spec)
    init = tree.initial_config()
    leaves = sorted(x for x in init if tree[x].kind == "atomic")
    others = sorted(x for x in tree.nodes if tree[x].kind in ("atomic", "compound") and x not in init and x != tree.root)
    if leaves and others:
        L = d.pick(leaves)
        node = spec["root"]
        for k in L.split(".")[1:]:
            node = next(c for c in node["children"] if c["key"] == k)
        node.setdefault("entry", []).append({"k": "raise", "event": d.pick(gen.RAISED)})
        tgt = d.pick(others)
        node["always"] = [{"target": tgt.split(".")[1:], "actions": [{"k": "user", "name": "slow"}]}] + list(node.get("always") or [])
        if d.chance(50):
            node.setdefault("after", []).append([d.pick([10, 20]), [{"target": None, "actions": []}]])
        finalize(spec)
    return case


def strategy(tier, campaign):
    if campaign == "sustained":
        return _sustained()
    if campaign == "startphase":
        return _startphase()
    return _case(preempt=(campaign == "preempt"))


def _seq(p, i):
    return p * 1000 + i


def run_async(case, rec_out):
    from xstate_statemachine import Event, Interpreter, create_machine

    spec = case["spec"]
    sent = []

    async def main(loop):
        rec = Recorder(budget=8000, clock=loop.time)
        rec.iter_fn = lambda: loop.iterations
        rec_out.append(rec)
        cfg, logic = build(spec, rec, async_mode=True)
        it = Interpreter(create_machine(cfg, logic=logic))
        rec.interp = it
        it.use(Tap(rec))
        await it.start()

        async def producer(p, evs):
            i = 0
            k = 0
            while k < len(evs):
                dt, typ, how = evs[k]
                if dt:
                    await asyncio.sleep(dt / 1000.0)
                if how == "batch" and k + 1 < len(evs):
                    batch = [Event(evs[k][1], {"seq": _seq(p, i)}), Event(evs[k + 1][1], {"seq": _seq(p, i + 1)})]
                    if it.status == "running":
                        sent.extend([(p, i), (p, i + 1)])
                    await it.send_events(batch)
                    i += 2
                    k += 2
                else:
                    if it.status == "running":
                        sent.append((p, i))
                    await it.send(Event(typ, {"seq": _seq(p, i)}))
                    i += 1
                    k += 1

        tasks = [asyncio.ensure_future(producer(p, evs)) for p, evs in enumerate(case["producers"])]
        await asyncio.gather(*tasks)
        await asyncio.sleep(case["tail"] / 1000.0)
        from ..drivers import _quiesce

        await _quiesce(it, loop)
        cfgset = frozenset(n.id for n in it._active_state_nodes)
        status = it.status
        rec.budget = 10 ** 9
        await it.stop()
        return cfgset, status

    out = run_virtual(main, max_iterations=400000)
    return sent, out


class Saturated(Exception):
    pass


def run_sync(case, rec_out):
    from xstate_statemachine import Event, SyncInterpreter, create_machine

    spec = case["spec"]
    sent = []
    it_choices = iter(case["choices"])
    sched = vthreads.Sched(chooser=lambda names: next(it_choices, 0))
    thr, tim = vthreads.install(sched)
    it = None
    un_preempt = None
    try:
        if case.get("preempt"):
            codes = {SyncInterpreter.send.__code__, SyncInterpreter.send_events.__code__,
                     SyncInterpreter._process_event_queue.__code__}
            un_preempt, hits, _cnt = vthreads.install_line_preemption(sched, case["preempt"], codes)
        rec = Recorder(budget=3000 if case.get("preempt") else 8000, clock=lambda: sched.now)
        rec_out.append(rec)
        cfg, logic = build(spec, rec, sleeper=sched.sleep)
        it = SyncInterpreter(create_machine(cfg, logic=logic))
        rec.interp = it
        it.use(Tap(rec))
        it.start()
        errors = []

        def producer(p, evs):
            try:
                i = 0
                k = 0
                while k < len(evs):
                    dt, typ, how = evs[k]
                    if dt:
                        sched.sleep(dt / 1000.0)
                    if how == "batch" and k + 1 < len(evs):
                        batch = [Event(evs[k][1], {"seq": _seq(p, i)}), Event(evs[k + 1][1], {"seq": _seq(p, i + 1)})]
                        if it.status == "running":
                            sent.extend([(p, i), (p, i + 1)])
                        it.send_events(batch)
                        i += 2
                        k += 2
                    else:
                        if it.status == "running":
                            sent.append((p, i))
                        it.send(Event(typ, {"seq": _seq(p, i)}))
                        i += 1
                        k += 1
            except StepBudgetExceeded:
                raise
            except Exception as e:  # noqa
                errors.append(type(e).__name__ + ":" + str(e)[:80])

        threads = [thr.Thread(target=producer, args=(p, evs), name=f"producer-{p}") for p, evs in enumerate(case["producers"])]
        for t in threads:
            t.start()
        for t in threads:
            t.join()
        sched.advance(case["tail"] / 1000.0)
        sched.settle()
        # slow entry/exit actions plus self re-arming timers can keep the engine busy past the
        # tail: give it more virtual time; a machine that never goes idle is not judged at "the end"
        for _ in range(3):
            if rec.blown or not (it._is_processing or it._event_queue):
                break
            sched.advance(0.045)
            sched.settle()
        if rec.blown:
            raise StepBudgetExceeded("blown")
        if it._is_processing:
            raise Saturated()
        if it._event_queue:
            # nobody is processing, every thread is idle, and accepted events are still sitting
            # in the queue: they will not be handled until some later send() happens to drain them
            errors.append("STRANDED:" + ",".join(str(getattr(e, "type", "?")) for e in list(it._event_queue)[:4]))
        if un_preempt is not None:
            rec.preempt_hits = list(hits)
            rec.line_events = _cnt[0]
        cfgset = frozenset(n.id for n in it._active_state_nodes)
        status = it.status
        return sent, (cfgset, status), errors
    finally:
        if un_preempt is not None:
            un_preempt()
        try:
            if it is not None:
                rec_out[0].budget = 10 ** 9
                it.stop()
        except BaseException:  # noqa
            pass
        sched.shutdown()
        vthreads.uninstall()


def check_case(case) -> CaseResult:
    res = CaseResult()
    spec, engine = case["spec"], case["engine"]
    tree = Tree(spec)
    idx = Index(spec)
    rec_out = []
    errors = []
    try:
        if engine == "async":
            sent, (cfgset, status) = run_async(case, rec_out)
        else:
            sent, (cfgset, status), errors = run_sync(case, rec_out)
    except StepBudgetExceeded:
        res.inconclusive = "budget"
        return res
    except (LoopDeadlock, vthreads.Deadlock):
        res.inconclusive = "deadlock"
        return res
    except Saturated:
        res.inconclusive = "never-idle"
        return res
    rec = rec_out[0]
    if rec.blown:
        res.inconclusive = "budget"
        return res
    log = rec.log
    res.sample = {"engine": engine, "producers": case["producers"], "choices": case["choices"][:10], "n_events_dequeued": sum(1 for e in log if e[0] == "recv")}
    stranded = [x for x in errors if x.startswith("STRANDED:")]
    errors = [x for x in errors if not x.startswith("STRANDED:")]
    if stranded:
        hits = getattr(rec, "preempt_hits", [])
        res.violate(f"{engine}|event-stranded-in-idle-queue", {"engine": engine, "queue": stranded[0][9:], "preempted_at": [list(h) for h in hits][:6]})
    if getattr(rec, "preempt_hits", None):
        res.classes.append("preempted:%d" % min(3, len(rec.preempt_hits)))
    if errors:
        res.violate(f"{engine}|send-raised-in-producer|{errors[0].split(':')[0]}", {"errors": errors[:3]})
    if status != "running":
        res.inconclusive = "terminal-status:" + str(status)
        return res
    maxit = spec.get("maxIterations") or 1000
    # ---- (1) exactly once, (2) per-producer order
    recv_ext = [e[2] for e in log if e[0] == "recv" and e[2] is not None]
    want = sorted(_seq(p, i) for p, i in sent)
    cut = False
    n_in_a_row = 0
    for e in log:
        if e[0] == "trans" and e[6] == "":
            n_in_a_row += 1
            if n_in_a_row >= maxit:
                cut = True
        elif e[0] == "recv":
            n_in_a_row = 0
    if engine == "sync":
        # the sync bound discards the queue (by design) when one drain exceeds maxIterations self-fed events
        pass
    got = sorted(recv_ext)
    if got != want:
        lost = sorted(set(want) - set(got))
        dup = sorted({x for x in got if got.count(x) > 1})
        extra = sorted(set(got) - set(want))
        import json as _json

        self_fed = '"k": "raise"' in _json.dumps(spec) or any(e[0] == "recv" and str(e[1]).startswith("done.") for e in log)
        if lost and stranded:
            pass  # reported above as stranded (accepted, never dequeued, still in the queue)
        elif lost and not cut and (len([e for e in log if e[0] == "recv"]) < maxit or not self_fed or case.get("max_chain", maxit) < maxit):
            res.violate(f"{engine}|event-lost", {"engine": engine, "lost": lost[:6], "sent": len(want), "dequeued": len(got)})
        elif lost:
            res.inconclusive = "cut-or-bound"
        if dup:
            res.violate(f"{engine}|event-duplicated", {"engine": engine, "dup": dup[:6]})
        if extra:
            res.violate(f"{engine}|event-from-nowhere", {"engine": engine, "extra": extra[:6]})
    if case.get("max_chain") == 1 and not stranded:
        # sustained template: every A raises exactly one R and R raises nothing, so no self-fed chain is ever
        # longer than 1 and no bound may be reached: each raised R must be dequeued exactly once
        n_a = sum(1 for e in log if e[0] == "recv" and e[1] == "A")
        n_r = sum(1 for e in log if e[0] == "recv" and e[1] == "R")
        if '"k": "raise"' in json.dumps(spec) and n_r != n_a:
            res.violate(f"{engine}|raised-event-{'lost' if n_r < n_a else 'duplicated'}|sustained-load", {"engine": engine, "raised": n_a, "dequeued": n_r, "maxIterations": maxit})
    for p in range(len(case["producers"])):
        mine = [s for s in recv_ext if s // 1000 == p]
        if mine != sorted(mine):
            res.violate(f"{engine}|producer-order-violated", {"engine": engine, "producer": p, "dequeued": mine})
            break
    # ---- (3) no interleaving
    cur = None
    in_flight_send = False
    slow_depth = 0
    for e in log:
        if e[0] == "recv":
            if slow_depth:
                res.violate(f"{engine}|event-dequeued-during-slow-action", {"engine": engine, "event": e[1], "seq": e[2]})
                break
            cur = (e[1], e[2])
        elif e[0] == "act":
            if e[1].endswith(":begin"):
                slow_depth += 1
            elif e[1].endswith(":end"):
                slow_depth = max(0, slow_depth - 1)
            ev = (e[2], e[3])
            if cur is None:
                continue  # start()
            if ev != cur and ev[0] != "":
                res.violate(f"{engine}|interleaved-macrosteps", {"engine": engine, "processing": cur, "action": e[1], "action_event": ev})
                break
    # ---- (5) transitions are serial: each one starts from the configuration the previous one left
    #      (two macrosteps in flight at once - e.g. the run loop consuming a raised event while
    #      start() is still settling - show up as a transition whose `from` snapshot was taken
    #      before another transition completed)
    prev_to = None
    for e in log:
        if e[0] != "trans":
            continue
        if e[6] == "___xstate_statemachine_init___":
            continue  # the sync engine reports its init pseudo-transition after the initial settle
        if prev_to is not None and e[2] != prev_to:
            res.violate(f"{engine}|transition-started-from-stale-configuration",
                        {"engine": engine, "tid": e[1], "event": e[6], "from": sorted(e[2]), "previous_to": sorted(prev_to)})
            break
        prev_to = e[3]
    # ---- non-triviality: a send landed while a slow action was running
    begin = None
    intervals = []
    for e in log:
        if e[0] == "act" and e[1].endswith(":begin"):
            begin = e[5]
        elif e[0] == "act" and e[1].endswith(":end") and begin is not None:
            intervals.append((begin, e[5]))
            begin = None
    t_send = {}
    for p, evs in enumerate(case["producers"]):
        t = 0
        for dt, typ, how in evs:
            t += dt
            for a, b in intervals:
                if a - 1e-9 <= t / 1000.0 <= b + 1e-9 and b > a:
                    res.nontrivial = True
    # ---- (4) settled at the end
    epoch = sum(1 for e in log if e[0] == "trans" and e[6] != "___xstate_statemachine_init___")
    if not cut and not tree.legal(cfgset):
        atoms = table_atoms(spec, epoch, set(cfgset))
        en = nominee_set(nominees(idx, set(cfgset), REvent("always"), atoms))
        if en:
            res.violate(f"{engine}|unsettled-always-at-quiescence", {"engine": engine, "enabled": [t.tid for t in en], "config": sorted(cfgset)})
    seen = set()
    uniq = []
    for t, d_ in res.violations:
        if t not in seen:
            seen.add(t)
            uniq.append((t, d_))
    res.violations = uniq
    return res


# ----------------------------------------------------------------------------- exhaustive preemption sweep (sync)
def _micro_templates():
    """Small fixed scenarios in which two threads meet inside send()/_process_event_queue()."""
    def mk(states, producers, extra=None):
        spec = {"id": "m", "root": {"key": "m", "kind": "compound", "initial": states[0]["key"], "children": states},
                "context": {"n": 0}, "maxIterations": 30, "tables": {}, "services": {}, "impls": {"slow": {"k": "slow", "ms": 5}}}
        spec.update(extra or {})
        from ..render import finalize

        finalize(spec)
        return {"spec": spec, "producers": producers, "engine": "sync", "tail": 60}

    ping = lambda *evs: [[e, [{"target": None, "actions": []}]] for e in evs]  # noqa: E731
    out = {}
    out["two-senders"] = mk([{"key": "a", "kind": "atomic", "on": ping("A", "B")}], [[[0, "A", "send"]], [[0, "B", "send"]]])
    out["sender-vs-after-timer"] = mk([{"key": "a", "kind": "atomic", "on": ping("A"), "after": [[10, [{"target": None, "actions": []}]]]}],
                                      [[[10, "A", "send"]]])
    out["batch-vs-sender"] = mk([{"key": "a", "kind": "atomic", "on": ping("A", "B", "C")}],
                                [[[0, "A", "batch"], [0, "B", "send"]], [[0, "C", "send"]]])
    out["sender-vs-delayed-raise"] = mk([{"key": "a", "kind": "atomic", "on": [
        ["A", [{"target": None, "actions": [{"k": "raise", "event": "R1", "delay": 10}]}]], ["B", [{"target": None, "actions": []}]],
        ["R1", [{"target": None, "actions": []}]]]}], [[[0, "A", "send"], [10, "B", "send"]]])
    out["sender-vs-transition-timer"] = mk([
        {"key": "a", "kind": "atomic", "on": [["A", [{"target": ["b"], "actions": []}]]], "after": [[10, [{"target": ["b"], "actions": []}]]]},
        {"key": "b", "kind": "atomic", "on": [["A", [{"target": ["a"], "actions": []}]]], "after": [[10, [{"target": ["a"], "actions": []}]]]}],
        [[[10, "A", "send"], [10, "A", "send"]], [[20, "A", "send"]]])
    return out


def _sweep_worker(args):
    name, plans, choices = args
    tpl = _micro_templates()[name]
    n = 0
    viol = []
    for plan_ in plans:
        for ch in choices:
            case = dict(tpl, preempt=list(plan_), choices=list(ch))
            r = check_case(case)
            n += 1
            for tag, detail in r.violations:
                if len(viol) < 5:
                    viol.append({"tag": tag + "|" + name, "detail": detail, "case": case})
    return n, viol


def extra_run(tier, seed, jobs):
    import multiprocessing as mp
    import time as _time

    t0 = _time.time()
    tpls = _micro_templates()
    work = []
    sizes = {}
    chooser_variants = [[0] * 8, [1] * 8, [0, 1] * 4, [1, 0] * 4]
    for name, tpl in tpls.items():
        rec_out = []
        try:
            run_sync(dict(tpl, preempt=[10 ** 9], choices=[]), rec_out)
            nlines = getattr(rec_out[0], "line_events", 0)
        except BaseException:  # noqa
            nlines = 0
        sizes[name] = nlines
        singles = [(k,) for k in range(1, nlines + 1)]
        if tier == "quick":
            pairs = [(a, b) for a in range(1, nlines + 1) for b in range(a + 1, min(nlines, a + 12) + 1)][::3] if nlines <= 150 else []
        else:
            pairs = [(a, b) for a in range(1, nlines + 1) for b in range(a + 1, min(nlines, a + 40) + 1)]
        for plans, chs in ((singles, chooser_variants), (pairs, chooser_variants[:2] if tier == "quick" else chooser_variants)):
            chunk = max(1, len(plans) // (jobs * 2))
            for i in range(0, len(plans), chunk):
                work.append((name, plans[i:i + chunk], chs))
    ctx = mp.get_context("fork")
    with ctx.Pool(jobs, maxtasksperchild=4) as pool:
        parts = pool.map(_sweep_worker, work)
    n = sum(p[0] for p in parts)
    seen = set()
    viol = []
    for p in parts:
        for v in p[1]:
            if v["tag"] not in seen:
                seen.add(v["tag"])
                viol.append(v)
    return {"evaluations": n, "nontrivial_count": n, "violations": viol, "samples": [{"template": k, "line_events": v} for k, v in sizes.items()][:3],
            "coverage": {"preemption_sweep": {"templates": sizes, "plans": "every single line boundary x 4 chooser variants; pairs " + ("within 12 lines, every 3rd, templates <=150 lines, 2 chooser variants" if tier == "quick" else "within 40 lines, 4 chooser variants"),
                                              "chooser_variants": len(chooser_variants), "runs": n, "wall_s": round(_time.time() - t0, 1)}}}
