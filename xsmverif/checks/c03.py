"""C03 — exit, then transition, then entry actions; exactly-once accounting; frame condition."""
from __future__ import annotations

import re

from hypothesis import strategies as st

from .. import drivers, findings, gen
from ..render import Index, walk_states
from ..runner import CaseResult
from ..tree import Tree, relation_class

PROPERTY = "C03"
LEVEL = "exploration"
RULE = (
    "Generated machines (full tree grammar, every relation class of target incl. history/ancestor/descendant/cross-"
    "region, `always`, onDone, acyclic raise, sync invoke, two markers per action list) x histories of <=12 payload-"
    "carrying sends, on SyncInterpreter and Interpreter. The Recorder log (unique marker action on every entry/exit/"
    "transition list, with the event each received) is segmented per executed transition by the on_transition hook and "
    "checked against laws: (a) exits < transition actions < entries inside a transition; (b) child exits before "
    "ancestor, ancestor entries before child; declared order inside each list; (c) every marker received the causing "
    "event (same type and payload seq; '' for eventless follow-ups; any synthetic init event during start()); (d) per "
    "processed event and state #entry-#exit == activity change, no entry while active, no exit while inactive (replayed "
    "from the log, compared with the observed configuration); (e) frame: no entry/exit marker and no service start "
    "outside subtree(LCA(source,target)). Non-trivial = a transition with >=2 exits and >=2 entries or one crossing a "
    "parallel boundary; distinct = distinct (spec, history) hash."
)
ASSUMPTIONS = [
    "activity is replayed from entry/exit markers starting from the configuration observed at the previous quiescent point",
    "the event seen by entry actions during start() is compared as <init> (the property names no causing event there)",
    "runs exceeding the step budget / cut by maxIterations are inconclusive here (C13)",
]
_TID = re.compile(r"^t\d+$")
INIT = "___xstate_statemachine_init___"
BASE = dict(after=False, invoke=True, raising_guards=False, nested_builtins=True, two_markers=True,
            null_transitions=False, p_handler=35, unhandled_service_errors=False, prefix_keys=True, hist_at_root=True)


def _profiles():
    return findings.main_and_probe_profiles(PROPERTY, BASE)


def plan(tier):
    main, probes = _profiles()
    out = [{"name": "main", "examples": 10000 if tier == "quick" else 150000}]
    for name in probes:
        out.append({"name": name, "examples": 320 if tier == "quick" else 3200, "shards": 4})
    return out


def strategy(tier, campaign):
    main, probes = _profiles()
    prof = gen.profile(**(main if campaign == "main" else probes[campaign]))
    return st.fixed_dictionaries({"spec": gen.machine_specs(prof), "history": gen.histories(prof, max_len=12)})


def _list_positions(spec):
    """marker name -> (list id, position) for top-level markers of every action list."""
    pos = {}
    for sid, s in walk_states(spec):
        for fam in ("entry", "exit"):
            k = 0
            for a in s.get(fam) or []:
                if a["k"] == "mark":
                    pos[a["name"]] = (fam + ":" + sid, k)
                    k += 1
        from ..render import state_transitions

        for fam, key, i, t in state_transitions(s):
            k = 0
            for a in t.get("actions") or []:
                if a["k"] == "mark":
                    pos[a["name"]] = ("t:" + str(t.get("mk")), k)
                    k += 1
    return pos


def _check_run(engine, spec, history, tree: Tree, idx: Index, pos, inv_state, res: CaseResult, nt: list):
    run = drivers.ENGINES[engine](spec, history)
    if run.create_exc:
        res.classes.append(f"{engine}:create-exc:{run.create_exc}")
        return
    if run.aborted:
        res.inconclusive = run.aborted
        return
    maxit = spec.get("maxIterations") or 1000
    active = set()
    started = False
    for o in run.steps:
        in_start = o.op[0] == "start"
        # ---- split into per-event segments: start has one implicit segment
        segs = []
        cur = {"ev": (INIT, None), "entries": []} if in_start else None
        if cur:
            segs.append(cur)
        for e in o.log:
            if e[0] == "recv":
                cur = {"ev": (e[1], e[2]), "entries": []}
                segs.append(cur)
            elif cur is not None:
                cur["entries"].append(e)
        for seg in segs:
            ev_type, ev_seq = seg["ev"]
            before = set(active)
            n_always = 0
            # ---- per-transition sub-segments
            buf = []
            last_in_list = {}
            init_phase = in_start and ev_type == INIT
            for e in seg["entries"]:
                if e[0] == "act":
                    name = e[1]
                    if init_phase and not (e[2] == INIT or str(e[2]).startswith("entry.")):
                        init_phase = False
                    if init_phase:
                        # initial entry: accounting only (no transition, no causing event)
                        if name in idx.entry_marker:
                            s = idx.entry_marker[name]
                            if s in active:
                                res.violate(f"{engine}|entry-while-active", {"engine": engine, "state": s, "event": "<init>"})
                            active.add(s)
                        elif name in idx.exit_marker or _TID.match(name):
                            res.violate(f"{engine}|non-entry-action-during-initial-entry", {"engine": engine, "marker": name})
                        continue
                    # (d) accounting
                    if name in idx.exit_marker:
                        s = idx.exit_marker[name]
                        if s not in active:
                            res.violate(f"{engine}|exit-while-inactive", {"engine": engine, "state": s, "event": ev_type})
                        active.discard(s)
                    elif name in idx.entry_marker:
                        s = idx.entry_marker[name]
                        if s in active:
                            res.violate(f"{engine}|entry-while-active", {"engine": engine, "state": s, "event": ev_type})
                        active.add(s)
                    # declared order inside a list
                    if name in pos:
                        lid, k = pos[name]
                        prevk = last_in_list.get(lid, -1)
                        if k != 0 and k != prevk + 1:
                            res.violate(f"{engine}|list-order", {"engine": engine, "list": lid, "marker": name, "pos": k, "prev": prevk})
                        last_in_list[lid] = k
                    buf.append(e)
                elif e[0] == "svc" and e[1] == "hook-start":
                    # the async engine starts services from their own tasks, so the hook cannot be
                    # attributed to a transition there; the sync engine invokes inline on entry
                    if engine == "sync" and not init_phase:
                        buf.append(e)
                elif e[0] == "trans":
                    tid = e[1]
                    ti = idx.trans.get(tid) if tid else None
                    if ti is not None:
                        if ti.family == "always":
                            n_always += 1
                        _check_transition(engine, tree, idx, ti, e, buf, ev_type, ev_seq, in_start, inv_state, res, nt)
                    buf = []
                    last_in_list = {}
            if n_always >= maxit:
                res.inconclusive = "cut"
                return
            # leftover acts without an on_transition hook: only legal during start (initial entry)
            if buf:
                names = [b[1] for b in buf if b[0] == "act"]
                if names:
                    res.violate(f"{engine}|actions-outside-any-transition", {"engine": engine, "acts": names[:6], "event": ev_type})
        # ---- compare replayed activity with the observation
        if frozenset(active) != o.cfg:
            if tree.legal(o.cfg):
                res.inconclusive = "illegal-config"
                return
            res.violate(f"{engine}|accounting-mismatch",
                        {"engine": engine, "op": o.op, "replayed": sorted(active), "observed": sorted(o.cfg)})
            active = set(o.cfg)


def _check_transition(engine, tree, idx, ti, hook, buf, ev_type, ev_seq, in_start, inv_state, res, nt):
    cls = relation_class(tree, ti.source, ti.target, ti.reenter)
    res.classes.append("rel:" + cls)
    acts = [b for b in buf if b[0] == "act"]
    names = [b[1] for b in acts]
    kinds = []
    for n in names:
        if n in idx.exit_marker:
            kinds.append("x")
        elif n in idx.entry_marker:
            kinds.append("e")
        elif n == ti.tid:
            kinds.append("t")
        elif _TID.match(n):
            kinds.append("T")  # marker of another transition inside this segment
        else:
            kinds.append("o")
    # (a) exit < transition < entry
    if "t" not in kinds:
        res.violate(f"{engine}|transition-marker-missing|{cls}", {"engine": engine, "tid": ti.tid, "acts": names[:10]})
        return
    it = kinds.index("t")
    if any(k == "e" for k in kinds[:it]):
        res.violate(f"{engine}|entry-before-transition-actions|{cls}", {"engine": engine, "tid": ti.tid, "acts": names[:12]})
    if any(k == "x" for k in kinds[it:]):
        res.violate(f"{engine}|exit-after-transition-actions|{cls}", {"engine": engine, "tid": ti.tid, "acts": names[:12]})
    if "T" in kinds:
        res.violate(f"{engine}|foreign-transition-marker|{cls}", {"engine": engine, "tid": ti.tid, "acts": names[:12]})
    exits = [idx.exit_marker[n] for n in names if n in idx.exit_marker]
    entries = [idx.entry_marker[n] for n in names if n in idx.entry_marker]
    # (b) hierarchy order
    for i, s in enumerate(exits):
        for s2 in exits[i + 1:]:
            if tree.is_proper_desc(s2, s):
                res.violate(f"{engine}|ancestor-exited-before-descendant|{cls}", {"engine": engine, "tid": ti.tid, "exits": exits})
                break
    for i, s in enumerate(entries):
        for s2 in entries[i + 1:]:
            if tree.is_proper_desc(s, s2):
                res.violate(f"{engine}|descendant-entered-before-ancestor|{cls}", {"engine": engine, "tid": ti.tid, "entries": entries})
                break
    if len(set(exits)) != len(exits):
        res.violate(f"{engine}|state-exited-twice|{cls}", {"engine": engine, "exits": exits})
    if len(set(entries)) != len(entries):
        res.violate(f"{engine}|state-entered-twice|{cls}", {"engine": engine, "entries": entries})
    # (c) causing event
    want_type = "" if ti.family == "always" else ev_type
    for b, k in zip(acts, kinds):
        got_type, got_seq = b[2], b[3]
        if in_start and ti.family == "always":
            ok = got_type == ""
        elif ti.family == "always":
            ok = got_type == ""
        else:
            ok = got_type == want_type and got_seq == ev_seq
        if not ok:
            where = {"x": "exit", "e": "entry", "t": "transition", "o": "transition", "T": "transition"}[k]
            how = "descent" if (k == "e" and b[1] in idx.entry_marker and str(got_type).startswith("entry.")) else "other"
            res.violate(f"{engine}|wrong-event-in-{where}-action|{how}",
                        {"engine": engine, "tid": ti.tid, "marker": b[1], "got": [got_type, got_seq], "want": [want_type, ev_seq], "class": cls})
            break
    # (e) frame
    if ti.target is None:
        scope = None
        if exits or entries:
            res.violate(f"{engine}|targetless-changed-states", {"engine": engine, "tid": ti.tid, "exits": exits, "entries": entries})
    else:
        tgt = ti.target
        if tree[tgt].kind == "history":
            tgt = tree[tgt].parent
        scope = tree.lca(ti.source, tgt)
        out = [s for s in exits + entries if not tree.is_desc(s, scope)]
        if out:
            res.violate(f"{engine}|frame-violation|{cls}",
                        {"engine": engine, "tid": ti.tid, "scope": scope, "outside": out, "exits": exits, "entries": entries})
        for b in buf:
            if b[0] == "svc" and b[1] == "hook-start":
                st_ = inv_state.get(b[2])
                if st_ is not None and not tree.is_desc(st_, scope):
                    res.violate(f"{engine}|service-restart-outside-frame|{cls}", {"engine": engine, "invoke": b[2], "state": st_, "scope": scope})
    # hook consistency: from/to sets vs markers
    frm, to = set(hook[2]), set(hook[3])
    if set(exits) - frm:
        res.violate(f"{engine}|exit-of-state-not-in-from_states|{cls}", {"exits": exits, "from": sorted(frm)})
    if len(exits) >= 2 and len(entries) >= 2:
        nt.append(1)
    elif "parallel" in cls or "region" in cls:
        nt.append(1)


def check_case(case) -> CaseResult:
    spec, history = case["spec"], case["history"]
    res = CaseResult()
    tree = Tree(spec)
    idx = Index(spec)
    pos = _list_positions(spec)
    inv_state = {}
    for sid, s in walk_states(spec):
        for inv in s.get("invoke") or []:
            inv_state[inv.get("id")] = sid
    res.excluded = dict(spec.get("_excluded", {}))
    nt: list = []
    for engine in ("sync", "async"):
        _check_run(engine, spec, history, tree, idx, pos, inv_state, res, nt)
        res.extra_evals += 1
    res.extra_evals -= 1
    res.nontrivial = bool(nt)
    # de-duplicate tags within a case
    seen = set()
    uniq = []
    for t, d in res.violations:
        if t not in seen:
            seen.add(t)
            uniq.append((t, d))
    res.violations = uniq
    res.sample = {"states": {n.id: n.kind for n in tree.nodes.values()}, "history": history, "n_transitions": len(idx.trans)}
    return res
