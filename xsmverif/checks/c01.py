"""C01 — the active configuration is always a legal statechart configuration."""
from __future__ import annotations

from hypothesis import strategies as st

from .. import drivers, gen
from ..render import Index
from ..runner import CaseResult
from ..tree import Tree, relation_class

PROPERTY = "C01"
LEVEL = "exploration"
RULE = (
    "Hypothesis-generated MachineSpec (state tree depth<=3, <=24 states, compound/parallel/final/history nodes, "
    "transitions drawn per relation class: targetless/self/sibling/child/descendant/parent/ancestor/cross-branch/"
    "cross-region/into-/out-of-parallel/history targets, guarded `always`, onDone, acyclic raise, `after` timers, sync "
    "invoke) x history of <=12 sends/advances, run on SyncInterpreter (virtual threads), Interpreter (virtual-time loop) "
    "and the pure API; legality of the configuration is judged by an independent tree model at every observation point "
    "(after start/send/drain, in every on_transition hook incl. live set, every subscriber call, every persisted "
    "snapshot, every PureSnapshot). Non-trivial = the run executed >=1 state-changing transition whose relation class "
    "is not sibling/self AND the machine has a parallel or history state; distinct = distinct (spec, history) hash."
)
ASSUMPTIONS = [
    "legality predicate is computed from the generated spec by xsmverif.tree (independent of the library's parse)",
    "sync engine runs under a deterministic baton scheduler replacing threading/time in sync_interpreter's namespace",
    "async engine runs on a virtual-time SelectorEventLoop subclass",
    "runs that exceed the step budget are inconclusive here (C13 judges them)",
]

BASE = dict(after=True, invoke=True, raising_guards=True, nested_builtins=True, null_transitions=True,
            prefix_keys=True, hist_at_root=True)
# second campaign: many simultaneously enabled eventless transitions in sibling regions
ALWAYS_HEAVY = dict(BASE, after=False, invoke=False, p_always=45, p_guard=35, p_handler=20, nested_builtins=False)
def _profiles():
    from .. import findings

    return findings.main_and_probe_profiles(PROPERTY, BASE)


def plan(tier):
    main, probes = _profiles()
    n = 4000 if tier == "quick" else 120000
    out = [{"name": "main", "examples": n}, {"name": "always-heavy", "examples": n // 3}]
    for name in probes:
        out.append({"name": name, "examples": 320 if tier == "quick" else 3200, "shards": 4})
    return out


def strategy(tier, campaign):
    main, probes = _profiles()
    if campaign == "always-heavy":
        prof = gen.profile(**dict(main, **{k: v for k, v in ALWAYS_HEAVY.items() if k not in ("exclude_classes",)}))
    else:
        prof = gen.profile(**(main if campaign == "main" else probes[campaign]))
    return st.fixed_dictionaries(
        {
            "spec": gen.machine_specs(prof),
            "history": gen.histories(prof, advance=True),
        }
    )


def _cls_of(tree, idx, e):
    tid = e[1]
    ti = idx.trans.get(tid) if tid else None
    if ti is None:
        return ("start" if e[6] == "___xstate_statemachine_init___" else "unknown"), "?"
    return relation_class(tree, ti.source, ti.target, ti.reenter), ti.family


def _culprit(tree: Tree, idx: Index, flat, li: int, cfg):
    """The transition whose execution produced the first illegal configuration `cfg`, seen at
    log index `li`: the nearest on_transition entry whose to_states is that configuration."""
    best = None
    for d in range(0, len(flat)):
        for j in (li - d, li + d):
            if 0 <= j < len(flat) and flat[j][0] == "trans" and (flat[j][3] == cfg or flat[j][4] == cfg):
                best = flat[j]
                break
        if best is not None or d > 40:
            break
    if best is None:
        for j in range(min(li, len(flat) - 1), -1, -1):
            if flat[j][0] == "trans":
                best = flat[j]
                break
    if best is None:
        return "start", "?"
    return _cls_of(tree, idx, best)


def check_engine(engine, spec, history, tree, idx, res: CaseResult):
    run = drivers.ENGINES[engine](spec, history)
    if run.create_exc:
        res.classes.append(f"{engine}:create-exc:{run.create_exc}")
        return run
    if run.aborted:
        res.inconclusive = run.aborted
        res.classes.append(f"{engine}:aborted:{run.aborted}")
    flat = []
    for o in run.steps:
        flat.extend(o.log)
    points = []  # (where, cfg, logindex) in observation order
    li = -1
    for o in run.steps:
        for e in o.log:
            li += 1
            if e[0] == "trans":
                points.append(("hook:to_states", e[3], li))
                if e[4] is not None:
                    points.append(("hook:live", e[4], li))
                if e[2] != e[3]:
                    ti = idx.trans.get(e[1]) if e[1] else None
                    if ti is not None:
                        cls = relation_class(tree, ti.source, ti.target, ti.reenter)
                        res.classes.append("rel:" + cls)
                        if cls not in ("sibling", "self", "self-reenter"):
                            res._nt = True  # type: ignore[attr-defined]
            elif e[0] == "sub":
                points.append(("subscriber", e[1], li))
        points.append((f"quiescent:{o.op[0]}", o.cfg, max(li, 0)))
        if o.snapcfg is not None:
            points.append((f"snapshot:{o.op[0]}", o.snapcfg, max(li, 0)))
        if engine != "pure" and not tree.legal(o.cfg) and o.leaves != frozenset(tree.leaves(o.cfg)):
            res.violate(f"{engine}|leaves-mismatch|?", {"cfg": sorted(o.cfg), "leaves": sorted(o.leaves)})
    res.extra_points = getattr(res, "extra_points", 0) + len(points)  # type: ignore[attr-defined]
    # Only the FIRST illegal observation of a run is reported: everything after it is downstream.
    for where, cfg, li in points:
        if cfg is None:
            continue
        probs = tree.legal(cfg)
        if not probs:
            continue
        pcs = ",".join(tree.problem_classes(probs))
        cls, fam = _culprit(tree, idx, flat, li, cfg)
        if where == "subscriber" and flat[li][2] == "error" and not any(
            e[0] == "trans" and (e[3] == cfg or e[4] == cfg) for e in flat
        ):
            # a subscriber notified by the failure path in the middle of a transition
            cls = "fail-notify-mid-transition"
        res.violate(f"{engine}|{pcs}|{cls}",
                    {"engine": engine, "where": where, "family": fam, "problems": probs[:6], "config": sorted(cfg)})
        break
    return run


class _Res(CaseResult):
    __slots__ = ("_nt", "extra_points")


def check_case(case) -> CaseResult:
    spec, history = case["spec"], case["history"]
    res = _Res()
    res._nt = False
    res.extra_points = 0
    tree = Tree(spec)
    idx = Index(spec)
    res.excluded = dict(spec.get("_excluded", {}))
    runs = {}
    for engine in ("sync", "async", "pure"):
        runs[engine] = check_engine(engine, spec, history, tree, idx, res)
        res.extra_evals += 1
    res.extra_evals -= 1
    res.nontrivial = bool(res._nt) and (tree.has_kind("parallel") or tree.has_kind("history"))
    r = runs["sync"]
    res.sample = {
        "states": {n.id: n.kind for n in tree.nodes.values()},
        "history": history,
        "sync_leaves_per_step": [sorted(o.leaves) for o in r.steps][:14],
    }
    return res
