"""C10 — completion: onDone exactly once; a top-level final state ends the machine."""
from __future__ import annotations

import collections

from hypothesis import strategies as st

from .. import drivers, findings, gen
from ..render import Index, walk_states
from ..runner import CaseResult, case_fp
from ..tree import Tree

PROPERTY = "C10"
LEVEL = "exploration"
RULE = (
    "Generated machines rich in final states (final children of compound states at every depth incl. the root, nested "
    "compound/parallel states with onDone, final states below compound children without their own onDone, literal and "
    "callable `output`, machine-level output) x histories of <=14 events that complete regions in every order, leave a "
    "final state through an ancestor's transition and complete again, and keep sending after completion; both engines. "
    "Oracle (counting law over the Recorder log, done-ness computed by an independent tree model from the activity "
    "replayed marker by marker): each entry of a final state f designates A(f) = nearest ancestor that declares onDone and "
    "is done at that moment; #dequeued done.state.A == #designations of A; an onDone transition fires only while "
    "processing its own done.state event, at most once per event, only if its state is done at selection time (never "
    "while a region is not final), and does fire if the state is still active and done; the action sees event.data == "
    "the designating final state's output. Entering a final child of the root with no A(f): on_done hook exactly once, "
    "status 'done', output = machine-level output if declared else the final state's; afterwards externally sent events "
    "produce no on_event_received and no marker. Non-trivial = a parallel state with >=2 regions completed, or a state "
    "designated >=2 times (re-completion); distinct = distinct (spec, history) hash."
)
ASSUMPTIONS = [
    "done-ness is the one the code documents and the suite pins: final; compound: active child done; parallel: every "
    "non-history region done (bubbling through a non-final compound child is intended behaviour)",
    "runs exceeding the step budget or cut by maxIterations are inconclusive (C13)",
]
BASE = dict(after=False, invoke=False, guards="tab", p_guard=20, always=False, ondone=True, nested_builtins=False,
            p_handler=40, max_iterations=30, final_under_root=True, output=True, history=True, max_depth=3)
BASE["raise"] = False


def _profiles():
    return findings.main_and_probe_profiles(PROPERTY, BASE)


def plan(tier):
    main, probes = _profiles()
    out = [{"name": "main", "examples": 8000 if tier == "quick" else 300000}]
    for name in probes:
        out.append({"name": name, "examples": 320 if tier == "quick" else 3200, "shards": 4})
    out.append({"name": "release-after-done", "examples": 300 if tier == "quick" else 20000, "shards": 4})
    return out


def _inject_skeleton(d, spec):
    """Adds a parallel state P (2-3 regions, each `w` --C<i>--> final `f`; U<i> un-completes region i)
    with onDone -> sibling `aft` (BACK returns to P) under a random compound host; root GOP enters P."""
    from ..tree import Tree

    tree = Tree(spec)
    hosts = [n.id for n in tree.nodes.values() if n.kind == "compound" and n.depth <= 1]
    if not hosts:
        return 0
    host = d.pick(sorted(hosts))
    hpath = host.split(".")[1:]
    hs = spec["root"]
    for k in hpath:
        hs = next(c for c in hs["children"] if c["key"] == k)
    nreg = d.int(2, 3)
    regs = []
    ppath = hpath + ["P"]
    for i in range(1, nreg + 1):
        rp = ppath + [f"r{i}"]
        fin = {"key": "f", "kind": "final"}
        if d.chance(60):
            fin["output"] = {"k": "lit", "val": {"o": f"r{i}"}}
        w = {"key": "w", "kind": "atomic", "on": [[f"C{i}", [{"target": rp + ["f"], "actions": []}]]]}
        kids = [w, fin]
        if d.chance(25):
            # bubbling shape: a compound child without its own onDone whose final child completes it
            mid = {"key": "mid", "kind": "compound", "initial": "x", "children": [
                {"key": "x", "kind": "atomic", "on": [[f"C{i}", [{"target": rp + ["mid", "xf"], "actions": []}]]]},
                {"key": "xf", "kind": "final"}]}
            w["on"] = [[f"C{i}", [{"target": rp + ["mid"], "actions": []}]]]
            kids.insert(1, mid)
        regs.append({"key": f"r{i}", "kind": "compound", "initial": "w", "children": kids})
    P = {"key": "P", "kind": "parallel", "children": regs, "on": [], "onDone": {"target": hpath + ["aft"], "actions": []}}
    for i in range(1, nreg + 1):
        P["on"].append([f"U{i}", [{"target": ppath + [f"r{i}", "w"], "actions": []}]])
    if d.chance(30):
        P["children"].append({"key": "h", "kind": "history", "hist": "deep"})
    aft = {"key": "aft", "kind": "atomic", "on": [["BACK", [{"target": ppath, "actions": []}]]]}
    hs["children"] = [c for c in hs["children"] if c["key"] not in ("P", "aft")] + [P, aft]
    spec["root"].setdefault("on", []).append(["GOP", [{"target": ppath, "actions": []}]])
    return nreg


@st.composite
def _case(draw, prof):
    from ..render import finalize

    spec = draw(gen.machine_specs(prof))
    d = gen.D(draw)
    for sid, s in walk_states(spec):
        if s["kind"] in ("compound",):
            for c in s.get("children", []):
                if c["kind"] == "atomic" and c["key"] != s.get("initial") and d.chance(35):
                    c["kind"] = "final"
                    for k in ("on", "always", "after", "invoke", "onDone"):
                        c.pop(k, None)
                    if d.chance(50):
                        c["output"] = {"k": "lit", "val": {"o": sid + "." + c["key"]}}
    skeleton = d.chance(90)
    events = list(gen.EVENTS[: prof["n_events"]])
    if skeleton:
        nreg = _inject_skeleton(d, spec)
        finalize(spec)
    if skeleton and nreg:
        events += ["GOP", "GOP", "BACK"] + [f"C{i}" for i in range(1, nreg + 1)] * 3 + [f"U{i}" for i in range(1, nreg + 1)]
    hist = []
    seq = 0
    if skeleton and nreg and d.chance(85):
        # scripted completion scenario: enter P, complete regions in a drawn order, with
        # un-completions and a re-completion round
        script = []
        if d.chance(90):
            script.append("GOP")
        for rnd in range(d.int(1, 2)):
            order = list(range(1, nreg + 1))
            perm = []
            while order:
                perm.append(order.pop(d.int(0, len(order) - 1)))
            for i in perm:
                script.append(f"C{i}")
                if d.chance(20):
                    script.append(f"U{i}")
                    script.append(f"C{i}")
                if d.chance(15):
                    script.append(d.pick(events))
            script.append("BACK" if d.chance(70) else d.pick(events))
        k = 0
        while k < len(script):
            if d.chance(15) and k + 1 < len(script):
                m_ = d.int(2, min(4, len(script) - k))
                hist.append(["batch", [[script[k + j], seq + j] for j in range(m_)]])
                seq += m_
                k += m_
            else:
                hist.append(["send", script[k], seq])
                seq += 1
                k += 1
    n = d.int(1, 8)
    i = 0
    while i < n:
        if d.chance(15):
            k = d.int(2, 4)
            hist.append(["batch", [[d.pick(events), seq + j] for j in range(k)]])
            seq += k
        else:
            hist.append(["send", d.pick(events), seq])
            seq += 1
        i += 1
    return {"spec": spec, "history": hist}


def _release_case():
    """stop() after completion: a machine that owns a root-level timer, pending delayed sends (with and
    without id), a running service and child actors (one of them done with a live grandchild) reaches
    its top-level final state and is then stopped. Runs on C14's lifecycle machine and laws."""
    pre = st.lists(st.sampled_from([["send", "DSEND"], ["send", "DSEND2"], ["send", "SPAWN"], ["send", "SPAWN2"], ["send", "GO"],
                                    ["advance", 1], ["advance", 30], ["send", "STOPWORK"]]), min_size=1, max_size=5)
    mid = st.sampled_from([[], [["advance", 1]], [["advance", 30]], [["send", "PINGX"]], [["advance", 80]]])
    return st.fixed_dictionaries({
        "kind": st.just("release"),
        "engine": st.sampled_from(["sync", "async"]),
        "svc": st.sampled_from(["sync", "coro"]),
        "spawner_first": st.booleans(),
        "root_svc": st.just(False),
        "ops": st.builds(lambda a, b: [["start"]] + [list(x) for x in a] + [["send", "STOPWORK"], ["send", "FIN"]] + [list(x) for x in b] + [["stop"], ["advance", 400]],
                         pre, mid),
    })


def _check_release(case) -> CaseResult:
    from . import c14

    r = c14.check_case(case)
    res = CaseResult()
    res.sample = {"engine": case["engine"], "ops": case["ops"]}
    res.inconclusive = r.inconclusive
    res.nontrivial = True
    res.nontrivial_keys = [case_fp(case)]
    res.classes.append("release-after-done")
    for tag, detail in r.violations:
        parts = tag.split("|")
        res.violate(f"{parts[0]}|not-released-after-completion|{parts[1]}", detail)
    return res


def strategy(tier, campaign):
    if campaign == "release-after-done":
        return _release_case()
    main, probes = _profiles()
    prof = gen.profile(**(main if campaign == "main" else probes[campaign]))
    return _case(prof)


def _resolve_output(node_spec):
    o = node_spec.get("output")
    if o is None:
        return ("lit", None)
    if isinstance(o, dict) and o.get("k") == "lit":
        return ("lit", o["val"])
    if isinstance(o, dict) and o.get("k") == "call":
        return ("call", o["key"])
    return ("lit", o)


def _check_run(engine, case, tree: Tree, idx: Index, res: CaseResult, nt: list):
    spec, history = case["spec"], case["history"]
    run = drivers.ENGINES[engine](spec, history)
    if run.create_exc:
        res.classes.append(f"{engine}:create-exc:{run.create_exc}")
        return
    if run.aborted:
        res.inconclusive = run.aborted
        return
    maxit = spec.get("maxIterations") or 1000
    ondone_of = {ti.source: ti for ti in idx.trans.values() if ti.family == "onDone"}
    active = set()
    designations = collections.defaultdict(list)  # S -> list of designating finals (FIFO)
    recvs = collections.Counter()
    desig_count = collections.Counter()
    completed = False
    done_hooks = 0
    top_final = None
    for o in run.steps:
        if o.exc:
            res.inconclusive = "exception:" + o.exc
            return
        cur_recv = None          # (type, seq) of the event being processed
        completed_before_step = completed
        seg_start = set(active)
        fired_in_seg = []
        n_events_in_step = 0
        expect_fire = None
        recv_after_done = False
        cur_desig = None
        for e in o.log:
            if e[0] == "recv":
                n_events_in_step += 1
                if n_events_in_step >= maxit:
                    res.inconclusive = "cut"
                    return
                if expect_fire is not None:
                    res.violate(f"{engine}|ondone-not-taken|{tree[expect_fire].kind}", {"engine": engine, "state": expect_fire})
                    expect_fire = None
                cur_recv = (e[1], e[2])
                # once the machine is done nothing is dequeued any more: neither a later send() nor an
                # event that was already waiting in the queue when the final state was entered
                recv_after_done = completed
                seg_start = set(active)
                fired_in_seg = []
                if e[1].startswith("done.state."):
                    S0 = e[1][len("done.state."):]
                    if S0 in ondone_of and S0 in seg_start and tree.done(S0, seg_start) and ondone_of[S0].guard is None \
                            and not completed:
                        expect_fire = S0
                if completed:
                    res.violate(f"{engine}|event-processed-after-done|{'later-send' if completed_before_step else 'queued-behind-completion'}", {"engine": engine, "event": e[1]})
                cur_desig = None
                if e[1].startswith("done.state."):
                    S = e[1][len("done.state."):]
                    recvs[S] += 1
                    if designations[S]:
                        cur_desig = designations[S].pop(0)
                    if recvs[S] > desig_count[S]:
                        res.violate(f"{engine}|done-event-without-completion|{tree[S].kind if S in tree.nodes else '?'}",
                                    {"engine": engine, "state": S, "received": recvs[S], "designated": desig_count[S]})
            elif e[0] == "act":
                name = e[1]
                if recv_after_done:
                    # user code running in response to an event that was dequeued after completion
                    res.violate(f"{engine}|user-code-after-done", {"engine": engine, "marker": name})
                if name in idx.exit_marker:
                    active.discard(idx.exit_marker[name])
                elif name in idx.entry_marker:
                    s = idx.entry_marker[name]
                    active.add(s)
                    if tree[s].kind == "final":
                        A = None
                        for a in tree.ancestors(s):
                            if a in ondone_of and tree.done(a, active):
                                A = a
                                break
                        if A is not None:
                            designations[A].append(s)
                            desig_count[A] += 1
                            res.classes.append("designate:" + tree[A].kind)
                            if tree[A].kind == "parallel" and len(tree.real_children(A)) >= 2:
                                nt.append(1)
                            if desig_count[A] >= 2:
                                nt.append(1)
                                res.classes.append("re-completion")
                        elif tree[s].parent == tree.root:
                            top_final = top_final or s
                elif name in idx.trans and idx.trans[name].family == "onDone":
                    ti = idx.trans[name]
                    S = ti.source
                    # (5) done data
                    if cur_recv and cur_recv[0] == "done.state." + S and cur_desig is not None:
                        f = cur_desig
                        kind, val = _resolve_output(tree[f].spec)
                        if kind == "lit" and e[4] != val:
                            res.violate(f"{engine}|wrong-done-data", {"engine": engine, "state": S, "final": f, "got": e[4], "want": val})
            elif e[0] == "trans":
                ti = idx.trans.get(e[1]) if e[1] else None
                if ti is not None and ti.family == "onDone":
                    S = ti.source
                    if not cur_recv or cur_recv[0] != "done.state." + S:
                        res.violate(f"{engine}|ondone-without-its-done-event", {"engine": engine, "state": S, "event": cur_recv})
                    else:
                        if fired_in_seg.count(ti.tid) >= 1:
                            res.violate(f"{engine}|ondone-twice-for-one-event", {"engine": engine, "state": S})
                        # the statement forbids this for parallel states ("never while any region is
                        # not final"); for a compound state it only fixes the count, which is judged above
                        if tree[S].kind == "parallel" and not tree.done(S, seg_start):
                            shape = tree[S].kind
                            res.violate(f"{engine}|ondone-while-not-done|{shape}",
                                        {"engine": engine, "state": S, "config_at_selection": sorted(seg_start)})
                    fired_in_seg.append(ti.tid)
                    if expect_fire == S:
                        expect_fire = None
                seg_start = set(active)
            elif e[0] == "life" and e[1] == "done":
                done_hooks += 1
                completed = True
        if expect_fire is not None:
            res.violate(f"{engine}|ondone-not-taken|{tree[expect_fire].kind}", {"engine": engine, "state": expect_fire})
            expect_fire = None
        if frozenset(active) != o.cfg:
            if tree.legal(o.cfg):
                res.inconclusive = "illegal-config"
                return
            active = set(o.cfg)
        # top-level completion
        if o.status == "done" and not completed:
            res.violate(f"{engine}|status-done-without-on_done-hook", {"engine": engine})
            completed = True
        if completed:
            if o.status != "done":
                res.violate(f"{engine}|completed-but-status-{o.status}", {"engine": engine})
    # queue balance at the end of the run
    for S, n in desig_count.items():
        if recvs[S] != n and not completed:
            res.violate(f"{engine}|completion-without-done-event|{tree[S].kind}",
                        {"engine": engine, "state": S, "designated": n, "received": recvs[S]})
    if done_hooks > 1:
        res.violate(f"{engine}|on_done-hook-{done_hooks}-times", {"engine": engine})
    if top_final is not None:
        last = run.steps[-1]
        if not completed:
            res.violate(f"{engine}|top-level-final-did-not-complete", {"engine": engine, "final": top_final, "status": last.status})
        else:
            res.classes.append("top-level-done")
            mo = spec.get("output")
            if mo is not None:
                want = ("lit", mo["val"]) if mo.get("k") == "lit" else ("call", mo.get("key"))
            else:
                want = _resolve_output(tree[top_final].spec)
            if want[0] == "lit" and last.output != want[1]:
                res.violate(f"{engine}|wrong-machine-output|{'machine' if mo is not None else 'final'}",
                            {"engine": engine, "got": last.output, "want": want[1]})
    elif completed:
        res.violate(f"{engine}|done-without-top-level-final", {"engine": engine})


def _check_ondone_fires(engine, run, tree, idx, res):
    pass


def check_case(case) -> CaseResult:
    if case.get("kind") == "release":
        return _check_release(case)
    res = CaseResult()
    spec = case["spec"]
    tree = Tree(spec)
    idx = Index(spec)
    res.excluded = dict(spec.get("_excluded", {}))
    nt: list = []
    for engine in ("sync", "async"):
        _check_run(engine, case, tree, idx, res, nt)
        res.extra_evals += 1
    res.extra_evals -= 1
    res.nontrivial = bool(nt)
    seen = set()
    uniq = []
    for t, d in res.violations:
        if t not in seen:
            seen.add(t)
            uniq.append((t, d))
    res.violations = uniq
    res.sample = {"states": {n.id: n.kind for n in tree.nodes.values()}, "history": case["history"]}
    return res
