"""C05 — sync, async and pure engines compute the same behaviour."""
from __future__ import annotations

import copy
import json

from hypothesis import strategies as st

from .. import drivers, findings, gen
from ..render import Index, walk_actions, walk_states, state_transitions
from ..runner import CaseResult
from ..tree import Tree

PROPERTY = "C05"
LEVEL = "exploration"
TECHNIQUE = "differential property-based testing: the same generated machine+logic+history on SyncInterpreter, Interpreter (virtual-time loop) and the pure API; traces compared at every quiescent point"
RULE = (
    "Campaign sync-vs-async: generated machines (hierarchy, parallel, history, context-reading guards, assign/raise/"
    "choose/pure/enqueueActions, always, onDone, synchronous invoked services, final-state and machine output) x "
    "histories of <=12 payload-carrying events; after every event (queue drained) the two engines must show the same "
    "configuration, context, status, output and the same ordered list of (marker action, event type, payload seq). "
    "Campaign pure-vs-sync: machines without invoke/after (the pure API is specified not to start them) run through "
    "initial_transition/transition chains; configuration, context, status, output must equal the sync engine's and the "
    "reported action types must equal the top-level action definitions the sync engine executed, in order; the pure "
    "calls must run no user action, leave the MachineNode fingerprint and the snapshot passed in unchanged. Runs in "
    "which an engine hit the maxIterations cut or the step budget are dropped (C13) and counted. Non-trivial = a run in "
    "which >=1 follow-up fired (always, done.state, raised event, service completion); distinct = distinct (spec, history)."
)
ASSUMPTIONS = [
    "the synthetic event seen by entry actions during start() (___xstate_statemachine_init___ vs entry.<id>) is compared as <init>",
    "guards read the context (not the harness epoch) so that all three engines evaluate the same predicate",
]
INIT = "___xstate_statemachine_init___"
BASE_SA = dict(after=False, invoke=True, guards="ctx", p_guard=40, always=True, ondone=True, nested_builtins=True,
               p_handler=35, max_iterations=30, history=True, output=True, unhandled_service_errors=False)
BASE_SA["raise"] = True
BASE_PURE = dict(after=False, invoke=False, guards="ctx", p_guard=40, always=True, ondone=True, nested_builtins=True,
                 p_handler=35, max_iterations=30, history=True, output=True)
BASE_PURE["raise"] = True


def _profiles(which):
    base = BASE_SA if which == "sa" else BASE_PURE
    return findings.main_and_probe_profiles(PROPERTY + (":pure" if which == "pure" else ""), base)


def _open_pure():
    # findings against the pure API are filed under property C05 with exclude_profile keys prefixed "pure:"
    out = dict(BASE_PURE)
    probes = {}
    for f in findings.open_for(PROPERTY):
        ex = {k[5:]: v for k, v in f.exclude_profile.items() if k.startswith("pure:")}
        if ex:
            out.update(ex)
    for f in findings.open_for(PROPERTY):
        ex = {k[5:]: v for k, v in f.exclude_profile.items() if k.startswith("pure:")}
        if ex:
            p = dict(out)
            for k in ex:
                p[k] = BASE_PURE.get(k, gen.DEFAULT_PROFILE.get(k))
            probes["probe-pure:" + f.id] = p
    return out, probes


def _open_sa():
    out = dict(BASE_SA)
    probes = {}
    fs = [f for f in findings.open_for(PROPERTY) if any(not k.startswith("pure:") for k in f.exclude_profile)]
    for f in fs:
        out.update({k: v for k, v in f.exclude_profile.items() if not k.startswith("pure:")})
    for f in fs:
        p = dict(out)
        for k in f.exclude_profile:
            if not k.startswith("pure:"):
                p[k] = BASE_SA.get(k, gen.DEFAULT_PROFILE.get(k))
        probes["probe-sa:" + f.id] = p
    return out, probes


def plan(tier):
    q = tier == "quick"
    out = [{"name": "main", "examples": 6000 if q else 120000}, {"name": "pure", "examples": 4000 if q else 60000}]
    for name in list(_open_sa()[1]) + list(_open_pure()[1]):
        out.append({"name": name, "examples": 320 if q else 3200, "shards": 4})
    return out


def strategy(tier, campaign):
    if campaign == "main":
        prof, kind = gen.profile(**_open_sa()[0]), "sa"
    elif campaign == "pure":
        prof, kind = gen.profile(**_open_pure()[0]), "pure"
    elif campaign.startswith("probe-sa:"):
        prof, kind = gen.profile(**_open_sa()[1][campaign]), "sa"
    else:
        prof, kind = gen.profile(**_open_pure()[1][campaign]), "pure"
    def computed_params(spec):
        # every third marker action (other than the leading entry/exit/transition markers the oracles
        # key on is fine too: params do not change what a marker logs) carries computed params
        n = 0
        for sid, s in walk_states(spec):
            lists = [s.get("entry"), s.get("exit")] + [t.get("actions") for _f, _k, _i, t in state_transitions(s) if not t.get("null")]
            for lst in lists:
                for a in walk_actions(lst or []):
                    if a.get("k") == "mark":
                        n += 1
                        if n % 3 == 0:
                            a["cparams"] = True
        return spec

    return st.fixed_dictionaries({"spec": gen.machine_specs(prof).map(computed_params), "history": gen.histories(prof, max_len=12),
                                  "kind": st.just(kind)})


def _norm_ev(t):
    if t == INIT or (isinstance(t, str) and t.startswith("entry.")):
        return "<init>"
    return t


def _step_view(o):
    acts = [(e[1], _norm_ev(e[2]), e[3]) for e in o.log if e[0] == "act"]
    return {"cfg": sorted(o.cfg), "ctx": o.ctx, "status": o.status, "output": o.output, "acts": acts, "exc": o.exc}


def _cut(run, maxit):
    """Did any macrostep of the run hit the iteration bound?"""
    for o in run.steps:
        n = 0
        k = 0
        for e in o.log:
            if e[0] == "recv":
                n += 1
                k = 0
            elif e[0] == "trans":
                k += 1
                if k >= maxit:
                    return True
        if n >= maxit:
            return True
    return False


def _followups(run) -> bool:
    for o in run.steps:
        for e in o.log:
            if e[0] == "recv" and e[2] is None:
                return True
            if e[0] == "trans" and e[6] == "":
                return True
    return False


def _diff(a, b):
    for k in ("cfg", "ctx", "status", "output", "exc"):
        if a[k] != b[k]:
            return k, {"a": a[k], "b": b[k]}
    if a["acts"] != b["acts"]:
        for i, (x, y) in enumerate(zip(a["acts"], b["acts"])):
            if x != y:
                return "acts", {"index": i, "a": a["acts"][max(0, i - 2): i + 3], "b": b["acts"][max(0, i - 2): i + 3]}
        return "acts", {"len": [len(a["acts"]), len(b["acts"])], "a_tail": a["acts"][-3:], "b_tail": b["acts"][-3:]}
    return None


def _features(spec):
    f = set()
    for sid, s in walk_states(spec):
        if s["kind"] == "history":
            f.add("history")
        if s.get("invoke"):
            f.add("invoke")
        if s.get("always"):
            f.add("always")
        lists = [s.get("entry"), s.get("exit")] + [t.get("actions") for _, _, _, t in state_transitions(s)]
        for lst in lists:
            for a in walk_actions(lst or []):
                if a["k"] in ("raise", "choose", "pure", "enqueue"):
                    f.add(a["k"])
    return f


def check_sa(case, res: CaseResult):
    spec, history = case["spec"], case["history"]
    maxit = spec.get("maxIterations") or 1000
    rs = drivers.run_sync(spec, history)
    ra = drivers.run_async(spec, history)
    res.extra_evals += 1
    for r in (rs, ra):
        if r.create_exc:
            res.classes.append("create-exc:" + r.create_exc)
    if rs.create_exc or ra.create_exc:
        if rs.create_exc != ra.create_exc:
            res.violate("sync-vs-async|creation-differs", {"sync": rs.create_exc, "async": ra.create_exc})
        return
    if rs.aborted or ra.aborted:
        res.inconclusive = "budget"
        return
    if _cut(rs, maxit) or _cut(ra, maxit):
        res.inconclusive = "cut"
        return
    res.nontrivial = _followups(rs)
    feats = _features(spec)
    for i, (a, b) in enumerate(zip(rs.steps, ra.steps)):
        va, vb = _step_view(a), _step_view(b)
        if a.exc is not None and b.exc is None:
            # the sync engine raises from send(), the async engine logs: compare the rest
            va["exc"] = vb["exc"] = None
        d = _diff(va, vb)
        if d:
            shape = "start" if a.op[0] == "start" else "event"
            why = []
            for e in a.log:
                if e[0] == "recv" and e[1].split(".")[0] in ("done", "error"):
                    why.append(".".join(e[1].split(".")[:2]))
            src = "+".join(sorted(set(why))[:2]) or "plain"
            res.violate(f"sync-vs-async|{d[0]}|{shape}|{src}", {"step": i, "op": a.op, "diff": d[1], "features": sorted(feats)})
            return


def _fingerprint(machine):
    """Cheap structural fingerprint of a MachineNode (ids, kinds, transitions, actions)."""
    out = []

    def rec(n):
        out.append((n.id, n.type, n.initial, n.history, n.target_str,
                    tuple(a.type for a in n.entry), tuple(a.type for a in n.exit),
                    tuple((k, tuple((t.target_str, t.reenter, tuple(a.type for a in t.actions), repr(t.guard_def)) for t in v))
                          for k, v in n.on.items()),
                    repr(n.on_done.target_str if n.on_done else None)))
        for c in n.states.values():
            rec(c)

    rec(machine)
    return (json.dumps(out, default=repr), repr(machine.initial_context))


def check_pure(case, res: CaseResult):
    spec, history = case["spec"], case["history"]
    maxit = spec.get("maxIterations") or 1000
    rs = drivers.run_sync(spec, history, {"vthreads": False})
    rp = drivers.run_pure(spec, history)
    res.extra_evals += 1
    if rs.create_exc or rp.create_exc:
        if rs.create_exc != rp.create_exc:
            res.violate("pure-vs-sync|creation-differs", {"sync": rs.create_exc, "pure": rp.create_exc})
        return
    if rs.aborted or rp.aborted or _cut(rs, maxit):
        res.inconclusive = "budget-or-cut"
        return
    res.nontrivial = _followups(rs)
    idx = Index(spec)
    tree = Tree(spec)
    # purity
    if getattr(rp, "machine_mutated", None):
        res.violate("pure|machine-definition-mutated", rp.machine_mutated)
    if rp.rec.user_calls:
        res.violate("pure|ran-user-actions", {"calls": rp.rec.user_calls, "acts": [e[1] for e in rp.rec.log if e[0] == "act"][:5]})
    history_used = False
    for i, (a, b) in enumerate(zip(rs.steps, rp.steps)):
        if b.exc == "INPUT-SNAPSHOT-MUTATED":
            res.violate("pure|input-snapshot-mutated", {"step": i})
            return
        if a.exc or b.exc:
            if bool(a.exc) != bool(b.exc):
                res.violate("pure-vs-sync|exception-differs", {"step": i, "sync": a.exc, "pure": b.exc})
            return
        # ---- dynamic cause classification (what happened on the sync side in this step)
        raised = any(e[0] == "recv" and e[2] is None and not e[1].startswith(("done.", "error.")) for e in a.log)
        nested = any(e[0] == "aexec" and e[1] in ("xstate.choose", "xstate.pure", "xstate.enqueueActions") for e in a.log)
        for e in a.log:
            if e[0] == "trans" and e[1] in idx.trans:
                tg = idx.trans[e[1]].target
                if tg is not None and tree[tg].kind == "history":
                    history_used = True
        after_done = i > 0 and rs.steps[i - 1].status in ("done", "error")
        cause = ("after-done" if after_done else "raised-event" if raised else "history" if history_used
                 else "nested-builtin" if nested else "plain")
        sa = "active" if a.status == "running" else a.status
        va = {"cfg": sorted(a.cfg), "ctx": a.ctx, "status": sa, "output": a.output}
        vb = {"cfg": sorted(b.cfg), "ctx": b.ctx, "status": b.status, "output": b.output}
        for k in ("cfg", "ctx", "status", "output"):
            if va[k] != vb[k]:
                res.violate(f"pure-vs-sync|state|{cause}", {"step": i, "op": a.op, "field": k, "sync": va[k], "pure": vb[k]})
                return
        # reported actions == executed action definitions, in order
        executed = [e[1] for e in a.log if e[0] == "aexec"]
        reported = b.extra.get("reported", [])
        if executed != reported:
            k = 0
            while k < min(len(executed), len(reported)) and executed[k] == reported[k]:
                k += 1
            prev = executed[k - 1] if k > 0 else "start"
            why = prev if prev.startswith("xstate.") else cause
            res.violate(f"pure-vs-sync|reported-actions|{why}", {"step": i, "op": a.op, "executed": executed[:14], "reported": reported[:14]})
            return


def check_case(case) -> CaseResult:
    res = CaseResult()
    res.excluded = dict(case["spec"].get("_excluded", {}))
    if case.get("kind", "sa") == "sa":
        check_sa(case, res)
    else:
        check_pure(case, res)
    tree = Tree(case["spec"])
    res.sample = {"kind": case.get("kind"), "states": {n.id: n.kind for n in tree.nodes.values()}, "history": case["history"]}
    return res
