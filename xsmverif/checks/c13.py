"""C13 — every macrostep terminates and never starves the host."""
from __future__ import annotations

from hypothesis import strategies as st

from .. import drivers, findings
from ..render import finalize
from ..runner import CaseResult, case_fp
from ..tree import Tree

PROPERTY = "C13"
LEVEL = "exploration"
TECHNIQUE = "property-based testing over generated feedback-loop machines with a step-count oracle (no wall clock) and an event-loop-iteration log for starvation"
RULE = (
    "Template machines containing one feedback path each - (always) mutually enabling always-cycle of length 1-4, "
    "(raise) an action raising its own trigger with fan-out 1 or 2, (done.state) an onDone that re-enters and "
    "re-completes its own state, (done.invoke) a done.invoke loop through a synchronous service, (nested) a self-"
    "enqueueing pure/choose/enqueueActions expansion - with natural length L drawn below / at / above maxIterations "
    "in [3,25] or infinite, triggered at start() or by an event, on both engines; plus bursts of N > maxIterations "
    "external events through send() and send_events(), and (sustained) a producer landing one external event inside each "
    "of more than maxIterations consecutive suspended macrosteps (C04 harness, exactly-once law); the raise template also "
    "comes in a `quiet` variant whose chain is interleaved with events nobody feeds on; (always-batch) K batched events "
    "each followed by its own short `always` chain, K x chain > maxIterations, all of which must run to their end. Oracle (step counts, not wall clock): one start()/send() executing "
    "more than 50 x maxIterations transitions/events is non-termination; the async run loop must not process more than "
    "maxIterations+2 queued events inside one event-loop iteration (recorded per on_event_received); after a cut the "
    "configuration is legal and a fresh PING event is handled; a chain with L <= maxIterations runs exactly L steps and "
    "ends with n == L; all N burst events are processed. Non-trivial = L >= maxIterations-1 (the bound matters) or a "
    "burst; distinct = distinct template parameters."
)
ASSUMPTIONS = [
    "non-termination is judged by a step budget of 50 x maxIterations (+ slack), i.e. 'does not run unboundedly longer "
    "than promised', not by a proof of termination",
    "starvation is judged on the virtual loop's iteration counter: events dequeued without the loop ever iterating",
]
KINDS = ["always", "raise", "done.state", "done.invoke", "nested"]


def plan(tier):
    q = tier == "quick"
    return [{"name": "main", "examples": 12000 if q else 40000}]


def strategy(tier, campaign):
    return st.fixed_dictionaries({
        "kind": st.sampled_from(KINDS + ["burst", "sustained", "always-batch"]),
        "engine": st.sampled_from(["sync", "async"]),
        "maxit": st.integers(3, 25),
        "rel": st.sampled_from(["below", "just-below", "at", "above", "far-above", "inf"]),
        "trigger": st.sampled_from(["start", "event"]),
        "cycle": st.integers(1, 4),
        "fanout": st.sampled_from([1, 1, 2, "quiet"]),
        "via": st.sampled_from(["pure", "enqueue", "choose"]),
        "burst_api": st.sampled_from(["send", "send_events"]),
        "burst_extra": st.integers(1, 20),
    })


def ell_of(case):
    m = case["maxit"]
    return {"below": max(1, m // 2), "just-below": m - 1, "at": m, "above": m + 3, "far-above": 4 * m, "inf": None}[case["rel"]]


def _g(ell):
    return {"k": "ctx", "key": "n", "op": "lt", "val": ell} if ell is not None else {"k": "ctx", "key": "n", "op": "ge", "val": 0}


INC = {"k": "assign", "ops": [["inc", "n"]]}


def build_spec(case):
    kind, ell, trig = case["kind"], ell_of(case), case["trigger"]
    root = {"key": "m", "kind": "compound", "initial": "idle", "children": [], "on": [["PING", [{"target": None, "actions": [{"k": "mark", "name": "pong"}]}]]]}
    idle = {"key": "idle", "kind": "atomic", "on": []}
    root["children"].append(idle)
    services = {}
    if kind == "always":
        c = case["cycle"]
        for i in range(c):
            s = {"key": f"s{i}", "kind": "atomic", "always": [{"target": [f"s{(i + 1) % c}"], "guard": _g(ell), "actions": [INC],
                                                             "reenter": c == 1}]}
            root["children"].append(s)
        entry = ["s0"]
    elif kind == "raise":
        n = case["fanout"]
        if n == "quiet":
            # the chain is interleaved with events nobody feeds on: E raises E and NOTE
            raised = [{"k": "raise", "event": "E"}, {"k": "raise", "event": "NOTE"}]
        else:
            raised = [{"k": "raise", "event": "E"}] * n
        w = {"key": "w", "kind": "atomic", "on": [["E", [{"target": None, "actions": [INC, {"k": "choose", "branches": [
            {"guard": _g(ell), "actions": raised}]}]}]]]}
        if n == "quiet" and case["cycle"] % 2 == 0:
            w["on"].append(["NOTE", [{"target": None, "actions": []}]])   # handled, but raises nothing
        if trig == "start":
            w["entry"] = [{"k": "raise", "event": "E"}]
        root["children"].append(w)
        entry = ["w"]
    elif kind == "done.state":
        S = {"key": "S", "kind": "compound", "initial": "f", "children": [{"key": "f", "kind": "final"}],
             "onDone": {"target": ["S"], "reenter": True, "guard": _g(ell), "actions": [INC]}}
        root["children"].append(S)
        entry = ["S"]
    elif kind == "done.invoke":
        v = {"key": "v", "kind": "atomic", "invoke": [{"src": "svc", "id": "iv", "onDone": [
            {"target": ["v"], "reenter": True, "guard": _g(ell), "actions": [INC]}]}]}
        services["svc"] = {"k": "sync", "outcome": "return", "value": 1}
        root["children"].append(v)
        entry = ["v"]
    elif kind == "nested":
        w = {"key": "w", "kind": "atomic", "on": [["E", [{"target": None, "actions": [
            {"k": "selfloop", "via": case["via"], "ell": ell, "name": "loopmark"}]}]]]}
        if trig == "start":
            w["entry"] = [{"k": "selfloop", "via": case["via"], "ell": ell, "name": "loopmark"}]
        root["children"].append(w)
        entry = ["w"]
    else:  # burst
        w = {"key": "w", "kind": "atomic", "on": [["E", [{"target": None, "actions": [INC]}]]]}
        root["children"].append(w)
        entry = ["w"]
    if trig == "start" or kind == "burst":
        root["initial"] = entry[0]
    else:
        idle["on"].append(["GO", [{"target": entry, "actions": []}]])
    spec = {"id": "m", "root": root, "context": {"n": 0}, "maxIterations": case["maxit"], "tables": {}, "services": services}
    finalize(spec)
    return spec


def history_of(case):
    kind, trig = case["kind"], case["trigger"]
    if kind == "burst":
        n = case["maxit"] + case["burst_extra"]
        if case["burst_api"] == "send_events":
            return [["batch", [["E", i] for i in range(n)]], ["send", "PING", 999]]
        return [["send", "E", i] for i in range(n)] + [["send", "PING", 999]]
    h = []
    if trig == "event":
        h.append(["send", "GO", 0])
    if kind in ("raise", "nested") and trig == "event":
        h.append(["send", "E", 1])
    h.append(["send", "PING", 999])
    return h


def _natural_n(case, ell):
    """Final counter value of a finite chain, or None when the total work exceeds the bound."""
    if case["kind"] != "raise" or case["fanout"] == 1:
        return ell
    if case["fanout"] == "quiet":
        # E is processed ell times, NOTE ell-1 times: 2*ell-1 queued events in one drain
        return ell if 2 * ell - 1 <= case["maxit"] - 1 else None
    pending, n, total = 1, 0, 0
    while pending:
        pending -= 1
        n += 1
        total += 1
        if n < ell:
            pending += case["fanout"]
        if total > case["maxit"] - 1:
            return None
    return n


def _check_sustained(case) -> CaseResult:
    """External events under sustained load: the handler of TICK suspends (a slow action) and a
    concurrent producer lands one more TICK during every suspended macrostep, for more than
    maxIterations consecutive macrosteps. Nothing is self-fed, so the bound must not touch them.
    Runs on the C04 harness (producers next to the engine), judged by its exactly-once law."""
    from . import c04

    res = CaseResult()
    engine, m = case["engine"], min(case["maxit"], 8)
    n = m + case["burst_extra"]
    w = {"key": "w", "kind": "atomic", "on": [["TICK", [{"target": None, "actions": [{"k": "user", "name": "slow"}, INC]}]],
                                              ["PING", [{"target": None, "actions": []}]]]}
    spec = {"id": "m", "root": {"key": "m", "kind": "compound", "initial": "w", "children": [w]}, "context": {"n": 0},
            "maxIterations": m, "tables": {}, "services": {}, "impls": {"slow": {"k": "slow", "ms": 20}}}
    finalize(spec)
    # first TICK at t=0, then one every 20 ms shifted by 10 ms: each lands in the middle of a slow action
    prod = [[0, "TICK", "send"]] + [[10 if i == 0 else 20, "TICK", "send"] for i in range(n - 1)]
    c4 = {"spec": spec, "producers": [prod, [[5, "PING", "send"]]], "engine": engine, "choices": [], "tail": 200 + 20 * n}
    r = c04.check_case(c4)
    res.sample = {"case": case, "sent": n, "maxIterations": m}
    res.classes.append("sustained")
    res.nontrivial = True
    res.nontrivial_keys = [case_fp(["sustained", engine, m, n])]
    res.inconclusive = r.inconclusive
    if r.inconclusive == "cut-or-bound":
        # C04 gives the engine the benefit of the doubt when events went missing in a run long
        # enough to have hit a self-feeding bound; this template has no self-fed event at all
        res.inconclusive = None
        res.violate(f"{engine}|external-events-under-sustained-load|event-lost", {"sent": n, "maxIterations": m})
    for tag, detail in r.violations:
        law = tag.split("|")[1]
        res.violate(f"{engine}|external-events-under-sustained-load|{law}", dict(detail, sent=n, maxIterations=m))
    return res


def _check_always_batch(case) -> CaseResult:
    """K external events in one send_events() batch, each followed by its own short `always` chain
    (c steps, c < maxIterations) that returns to the idle state; K*c > maxIterations. Every chain is
    shorter than the bound, so every one of them must run to its natural end: the bound is per
    macrostep, not per drain."""
    res = CaseResult()
    engine, m = case["engine"], case["maxit"]
    c = min(case["cycle"], m - 1)
    k = m // c + 2
    root = {"key": "m", "kind": "compound", "initial": "idle", "children": [
        {"key": "idle", "kind": "atomic", "on": [["JOB", [{"target": ["s0"], "actions": []}]]]}],
        "on": [["PING", [{"target": None, "actions": [{"k": "mark", "name": "pong"}]}]]]}
    for i in range(c):
        nxt = [f"s{i + 1}"] if i + 1 < c else ["idle"]
        root["children"].append({"key": f"s{i}", "kind": "atomic", "always": [{"target": nxt, "actions": [INC]}]})
    spec = {"id": "m", "root": root, "context": {"n": 0}, "maxIterations": m, "tables": {}, "services": {}}
    finalize(spec)
    hist = [["batch", [["JOB", i] for i in range(k)]], ["send", "PING", 999]]
    run = drivers.ENGINES[engine](spec, hist, {"budget": 50 * m * 8 + 400, "loop_budget": 200000})
    res.sample = {"case": case, "events": k, "always_steps_per_event": c, "maxIterations": m}
    res.classes.append("always-batch")
    res.nontrivial = True
    res.nontrivial_keys = [case_fp(["always-batch", engine, m, c])]
    if run.create_exc or run.aborted:
        res.inconclusive = run.aborted or "create-exc"
        return res
    last = run.steps[-1]
    n = last.ctx.get("n") if isinstance(last.ctx, dict) else None
    if n != k * c or "m.idle" not in last.cfg:
        res.violate(f"{engine}|short-chains-cut-within-one-drain|always-batch", {"events": k, "steps_per_event": c, "maxIterations": m, "n": n, "want": k * c, "cfg": sorted(last.cfg)})
    return res


def check_case(case) -> CaseResult:
    if case["kind"] == "sustained":
        return _check_sustained(case)
    if case["kind"] == "always-batch":
        return _check_always_batch(case)
    res = CaseResult()
    spec = build_spec(case)
    hist = history_of(case)
    engine, kind, m = case["engine"], case["kind"], case["maxit"]
    ell = ell_of(case)
    tree = Tree(spec)
    budget = 50 * m * 8 + 400
    run = drivers.ENGINES[engine](spec, hist, {"budget": budget, "loop_budget": 200000})
    shape = f"{kind}|{case['trigger']}" + (f"|fanout{case['fanout']}" if kind == "raise" else "") + (f"|{case['via']}" if kind == "nested" else "")
    res.sample = {"case": case, "L": ell, "history": hist[:3]}
    res.classes.append(f"{kind}:{case['rel']}")
    res.nontrivial = kind == "burst" or ell is None or ell >= m - 1
    res.nontrivial_keys = [case_fp(case)]
    if run.create_exc:
        res.violate(f"{engine}|create-raised|{kind}", {"exc": run.create_exc})
        return res
    if run.aborted == "budget":
        res.violate(f"{engine}|non-termination|{shape}|{'inf' if ell is None else 'finite'}",
                    {"engine": engine, "L": ell, "maxIterations": m, "steps": run.rec.steps, "note": "more than 50 x maxIterations steps in one start()/send()"})
        return res
    if run.aborted:
        res.inconclusive = run.aborted
        return res
    # ---- counts
    all_log = [e for o in run.steps for e in o.log]
    n_final = run.steps[-1].ctx.get("n") if run.steps and isinstance(run.steps[-1].ctx, dict) else None
    if kind == "burst":
        want = m + case["burst_extra"]
        if n_final != want:
            res.violate(f"{engine}|burst-events-lost|{case['burst_api']}", {"engine": engine, "sent": want, "processed": n_final, "maxIterations": m})
    elif ell is not None and ell <= m - 1 and _natural_n(case, ell) is not None:
        # a chain strictly below the bound runs to its natural end
        want_n = _natural_n(case, ell)
        if n_final != want_n:
            res.violate(f"{engine}|short-chain-not-run-to-its-end|{shape}", {"engine": engine, "L": ell, "n": n_final, "want": want_n, "maxIterations": m})
    # ---- starvation (async): events dequeued inside one loop iteration
    if engine == "async" and kind != "burst":
        # (a burst is N events the *caller* queued; only self-feeding chains are bounded)
        per_iter = {}
        for e in all_log:
            if e[0] == "recv" and len(e) > 4 and e[4] is not None:
                per_iter[e[4]] = per_iter.get(e[4], 0) + 1
        worst = max(per_iter.values(), default=0)
        if worst > m + 2:
            res.violate(f"async|loop-not-yielding|{shape}", {"events_in_one_loop_iteration": worst, "maxIterations": m})
    # ---- after the chain: legal configuration and a responsive interpreter
    last = run.steps[-1]
    probs = tree.legal(last.cfg)
    if probs:
        res.violate(f"{engine}|illegal-configuration-after-cut|{shape}", {"problems": probs[:4], "cfg": sorted(last.cfg)})
    if last.status == "running":
        settled = kind == "burst" or (ell is not None and ell <= m - 1)
        got_ping = any(e[0] == "recv" and e[1] == "PING" for e in last.log)
        ponged = any(e[0] == "act" and e[1] == "pong" for e in last.log)
        # after a cut the chain may still be enabled and legitimately win selection again, so only a
        # chain that ran to its natural end must let PING's own handler run; in every case the event
        # must have been dequeued
        if not got_ping or (settled and not ponged):
            res.violate(f"{engine}|unresponsive-after-chain|{shape}", {"status": last.status, "log": [e[:2] for e in last.log][:6]})
    elif last.status not in ("running",):
        res.violate(f"{engine}|status-{last.status}-after-chain|{shape}", {"status": last.status})
    if any(o.exc for o in run.steps):
        bad = next(o for o in run.steps if o.exc)
        res.violate(f"{engine}|exception-escaped|{shape}|{bad.exc}", {"op": bad.op, "msg": bad.extra.get("exc_msg")})
    return res
