"""C06 — guards gate transitions exactly: composites, stateIn, cond alias, raise=false, missing=error."""
from __future__ import annotations

import copy
import itertools
import logging
import multiprocessing as mp
import time
from typing import Any, List, Optional

from hypothesis import strategies as st

from ..render import eval_guard, guard_name, render_guard, walk_guards
from ..runner import CaseResult, case_fp

PROPERTY = "C06"
LEVEL = "exploration"
TECHNIQUE = "exhaustive enumeration of guard formulas up to depth 2 x positions x spellings (itertools.product, 16 processes) + Hypothesis for depth<=4, against Python short-circuit evaluation"
LEVEL_TEXT = ("exhaustive within the bound for formulas of depth<=2 (arity<=2) over true/false/raising/missing atoms plus depth<=1 "
              "over parameterised and stateIn atoms, in 5 positions x 3 operand spellings x guard/cond; generated search for "
              "deeper formulas and stateIn spellings over a nested parallel tree")
RULE = (
    "A guard formula F is placed (1) on the first of two leaf candidates, (2) on the second candidate behind a false one "
    "with an unguarded ancestor handler, (3) on an ancestor's first candidate, (4) on a choose branch, (5) behind "
    "enqueueActions' check(), (6) behind a false *twin* in the same candidate list - a guard with the same type string "
    "(same guard name with other params, same composite kind with other operands, stateIn of another state); spelled with `guard` or `cond`, operands under children / params.guards / params.guard. "
    "Oracle: Python evaluation with left-to-right short-circuit where a raising atom is False; the marker that ran must be "
    "the one that value selects (first / fallback / ancestor); a *reached* missing atom must surface "
    "ImplementationMissingError (raised by sync send(), no transition on async, can() False; reported through "
    "on_action_error inside choose/enqueueActions) and never be decided silently; parameterised guards return "
    "params['want'] (literal or computed params); stateIn is true iff the named state is active; after the event a "
    "second event is still handled. Exhaustive part enumerates every formula of depth<=2; Hypothesis part draws depth<=4. "
    "Parameterised guards with falsy params ({} 0 False '' [], declared or computed) must still be handed their params. "
    "Non-trivial = formula of depth>=1 or containing a raising/missing atom; distinct = distinct (formula, position, spelling, engine)."
)
ASSUMPTIONS = [
    "a missing atom that short-circuit evaluation never reaches may yield either the short-circuit value or the error",
    "machines are the fixed 5-position harness of this module, not the general generator",
]
logging.disable(logging.CRITICAL)

T = {"k": "const", "val": True}
F = {"k": "const", "val": False}
R = {"k": "raising", "name": "r"}
M = {"k": "missing", "name": "m"}
PT = {"k": "param", "name": "x", "params": {"want": True}}
PF = {"k": "param", "name": "x", "params": {"want": False}}
PC = {"k": "param", "name": "x", "params": {"want": True}, "computed": True}
# parameterised guards whose declared / computed params are falsy values ({} 0 False "" []): `got` is true iff
# the params were handed over, `lost` is true iff they were not
FALSY = [{}, 0, False, "", []]
PZ = [{"k": "pz", "idx": i, "computed": c, "want": w} for i in range(len(FALSY)) for c in (False, True) for w in ("got", "lost")]
IA = {"k": "in", "state": ["a"]}
II = {"k": "in", "state": ["b"]}
CORE = [T, F, R, M]
ALL = [T, F, R, M, PT, PF, PC, IA, II]
D0_EXTRA = PZ
POSITIONS = ["first", "second", "ancestor", "choose", "enqueue", "twin"]
FORMS = ["children", "params.guards", "params.guard"]


def _d1(atoms):
    out = []
    for x in atoms:
        out.append({"k": "not", "arg": x})
        out.append({"k": "and", "args": [x]})
    for op in ("and", "or"):
        for x, y in itertools.product(atoms, repeat=2):
            out.append({"k": op, "args": [x, y]})
    return out


def formulas_exhaustive():
    d0 = list(ALL) + list(D0_EXTRA)
    d1_all = _d1(ALL) + [{"k": "not", "arg": x} for x in D0_EXTRA] + [{"k": op, "args": [x, y]} for op in ("and", "or") for x in D0_EXTRA[:4] for y in (T, F)]
    core1 = list(CORE) + _d1(CORE)
    d2 = []
    for x in core1:
        if x["k"] in ("and", "or", "not"):
            d2.append({"k": "not", "arg": x})
    for op in ("and", "or"):
        for x, y in itertools.product(core1, repeat=2):
            if x["k"] in ("and", "or", "not") or y["k"] in ("and", "or", "not"):
                d2.append({"k": op, "args": [x, y]})
    return d0 + d1_all + d2


def depth(g):
    if g["k"] in ("and", "or"):
        return 1 + max(depth(x) for x in g["args"])
    if g["k"] == "not":
        return 1 + depth(g["arg"])
    return 0


def with_form(g, form):
    g = dict(g)
    if g["k"] in ("and", "or"):
        g["args"] = [with_form(x, form) for x in g["args"]]
        g["sp"] = {"form": "children" if form == "params.guard" else form}
    elif g["k"] == "not":
        g["arg"] = with_form(g["arg"], form)
        g["sp"] = {"form": form}
    return g


def _cfg_guard(g, mid="m"):
    """render_guard + computed params support."""
    if g["k"] in ("and", "or", "not"):
        return render_guard(g, mid)
    if g["k"] == "pz":
        val = copy.deepcopy(FALSY[g["idx"]])
        return {"type": "p.z" + g["want"], "params": (lambda a, val=val: val) if g["computed"] else val}
    if g["k"] == "param" and g.get("computed"):
        want = g["params"]["want"]
        return {"type": guard_name(g), "params": (lambda a, want=want: {"want": want})}
    return render_guard(g, mid)


def _render(g):
    if g["k"] in ("and", "or"):
        kids = [_render(x) for x in g["args"]]
        form = (g.get("sp") or {}).get("form", "children")
        if form == "params.guards":
            return {"type": g["k"], "params": {"guards": kids}}
        return {"type": g["k"], "children": kids}
    if g["k"] == "not":
        kid = _render(g["arg"])
        form = (g.get("sp") or {}).get("form", "children")
        if form == "params.guards":
            return {"type": "not", "params": {"guards": [kid]}}
        if form == "params.guard":
            return {"type": "not", "params": {"guard": kid}}
        return {"type": "not", "children": [kid]}
    return _cfg_guard(g)


def twin_of(g, tree="small"):
    """A guard with the same `type` string as g (same name / same composite kind) that is false:
    different params or operands. Sits *before* g in the same candidate list."""
    k = g["k"]
    if k == "and":
        return {"k": "and", "args": [F], "sp": g.get("sp")}
    if k == "or":
        return {"k": "or", "args": [F], "sp": g.get("sp")}
    if k == "not":
        return {"k": "not", "arg": T, "sp": g.get("sp")}
    if k == "param":
        return {"k": "param", "name": g["name"], "params": {"want": False}}
    if k == "in":
        other = "b" if tree == "small" else "q"   # exists, never active in the harness trees
        return {"k": "in", "state": [other], "abs_id": "m." + other, "sp": {"form": "#abs", "pkey": (g.get("sp") or {}).get("pkey", "state")}}
    return F


_LOG: List[Any] = []


def build_machine(g, position, gkey, tree="small"):
    gc = _render(g)

    def tr(name, guard=None, key=gkey):
        t = {"actions": [name]}
        if guard is not None:
            t[key] = guard
        return t

    leaf_on = {"PING": {"actions": ["pong"]}}
    root_on = {}
    par_on = {}
    if position == "first":
        leaf_on["GO"] = [tr("first", gc), tr("second")]
    elif position == "second":
        leaf_on["GO"] = [tr("c0", "g.false"), tr("first", gc)]
        root_on["GO"] = tr("anc")
    elif position == "twin":
        leaf_on["GO"] = [tr("c0", _render(twin_of(g, tree))), tr("first", gc), tr("second")]
    elif position == "ancestor":
        par_on["GO"] = [tr("first", gc), tr("second")]
    elif position == "choose":
        leaf_on["GO"] = {"actions": [{"type": "xstate.choose", "params": {"conditions": [
            {gkey: gc, "actions": ["first"]}, {"actions": ["second"]}]}}]}
    elif position == "enqueue":
        def cb(a, gc=gc):
            if a["check"](gc):
                a["enqueue"]("first")
            else:
                a["enqueue"]("second")

        leaf_on["GO"] = {"actions": [{"type": "xstate.enqueueActions", "params": {"callback": cb}}]}
    if tree == "small":
        cfg = {"id": "m", "initial": "a", "on": root_on, "states": {
            "a": {"initial": "l", "on": par_on, "states": {"l": {"on": leaf_on}}},
            "b": {}}}
    else:
        # nested parallel tree for stateIn spellings: active = m, m.p, m.p.r1, m.p.r1.x, m.p.r2, m.p.r2.u, m.p.r2.u.deep
        # the fallback ancestor handler sits on the region r1 (on the root it would also be
        # nominated by r2's leaf, legitimately firing next to r1's winner)
        cfg = {"id": "m", "initial": "p", "states": {
            "p": {"type": "parallel", "on": par_on, "states": {
                "r1": {"initial": "x", "on": root_on, "states": {"x": {"on": leaf_on}, "y": {}}},
                "r2": {"initial": "u", "states": {"u": {"initial": "deep", "states": {"deep": {}, "other": {}, "dee": {}}}, "v": {}}}}},
            "q": {"initial": "x", "states": {"x": {}}}}}
    return cfg


_UNSET = object()


def make_logic():
    from xstate_statemachine import MachineLogic

    def mark(i, c, e, a):
        _LOG.append(("act", a.type))

    def g_raise(c, e):
        raise RuntimeError("guard raises")

    def g_param(c, e, params):
        _LOG.append(("params", repr(params)))
        return bool(params["want"])

    def g_zgot(c, e, params=_UNSET):
        _LOG.append(("zparams", "<unset>" if params is _UNSET else repr(params)))
        return params is not _UNSET and not params

    def g_zlost(c, e, params=_UNSET):
        _LOG.append(("zparams", "<unset>" if params is _UNSET else repr(params)))
        return params is _UNSET

    return MachineLogic(
        actions={n: mark for n in ("first", "second", "anc", "c0", "pong")},
        guards={"g.true": lambda c, e: True, "g.false": lambda c, e: False, "g.raise.r": g_raise, "p.x": g_param,
                "p.zgot": g_zgot, "p.zlost": g_zlost},
    )


class _Tap:
    def on_transition(self, *a):
        pass

    def on_event_received(self, *a):
        pass

    def on_action_error(self, interp, action, error):
        _LOG.append(("aerr", type(error).__name__))


def run_one(g, position, gkey, engine, tree="small"):
    """-> dict(can=..., acts=[...], exc=..., aerr=[...], pong=bool, cfg_same=bool)"""
    from xstate_statemachine import Event, Interpreter, SyncInterpreter, create_machine

    cfg = build_machine(g, position, gkey, tree)
    machine = create_machine(cfg, logic=make_logic())
    out = {"exc": None}
    if engine == "sync":
        it = SyncInterpreter(machine)
        it.use(_Tap())
        it.start()
        before = sorted(it.current_state_ids)
        out["can"] = it.can("GO")
        del _LOG[:]
        try:
            it.send(Event("GO"))
        except Exception as e:  # noqa
            out["exc"] = type(e).__name__
        log = list(_LOG)
        del _LOG[:]
        try:
            it.send(Event("PING"))
        except Exception as e:  # noqa
            out["exc2"] = type(e).__name__
        out["pong"] = ("act", "pong") in _LOG
        out["cfg_same"] = sorted(it.current_state_ids) == before and it.status == "running"
        it.stop()
    else:
        from ..vloop import run_virtual

        async def main(loop):
            it = Interpreter(machine)
            it.use(_Tap())
            await it.start()
            before = sorted(it.current_state_ids)
            out["can"] = it.can("GO")
            del _LOG[:]
            await it.send(Event("GO"))
            await it._event_queue.join()
            log.extend(_LOG)
            del _LOG[:]
            await it.send(Event("PING"))
            await it._event_queue.join()
            out["pong"] = ("act", "pong") in _LOG
            out["cfg_same"] = sorted(it.current_state_ids) == before and it.status == "running"
            await it.stop()

        log = []
        run_virtual(main)
    out["acts"] = [x[1] for x in log if x[0] == "act"]
    out["aerr"] = [x[1] for x in log if x[0] == "aerr"]
    out["params"] = [x[1] for x in log if x[0] == "params"]
    return out


ACTIVE_SMALL = {"m", "m.a", "m.a.l"}
ACTIVE_BIG = {"m", "m.p", "m.p.r1", "m.p.r1.x", "m.p.r2", "m.p.r2.u", "m.p.r2.u.deep"}


def atoms_for(active):
    def atoms(g):
        k = g["k"]
        if k == "const":
            return g["val"]
        if k == "raising":
            return False
        if k == "missing":
            return "missing"
        if k == "param":
            return bool(g["params"]["want"])
        if k == "pz":
            return g["want"] == "got"
        if k == "in":
            if g.get("abs_id"):
                return g["abs_id"] in active
            return ("m." + ".".join(g["state"])) in active
        raise ValueError(k)

    return atoms


def contains(g, kind):
    return any(x["k"] == kind for x in walk_guards(g))


def judge(g, position, engine, out, active) -> Optional[tuple]:
    """-> None or (law, detail)."""
    v = eval_guard(g, atoms_for(active))
    has_missing = contains(g, "missing")
    acts = out["acts"]
    fired = [a for a in acts if a in ("first", "second", "anc")]
    if position in ("first", "ancestor", "twin"):
        want = {True: ["first"], False: ["second"]}
    elif position == "second":
        want = {True: ["first"], False: ["anc"]}
    else:
        want = {True: ["first"], False: ["second"]}
    ok_vals = [v]
    if has_missing and v != "missing":
        ok_vals.append("missing")  # an unreached missing atom may also be reported
    verdicts = []
    for val in ok_vals:
        if val == "missing":
            if position in ("choose", "enqueue"):
                good = fired == [] and "ImplementationMissingError" in out["aerr"]
            elif engine == "sync":
                good = fired == [] and out["exc"] == "ImplementationMissingError"
            else:
                good = fired == []
            if position not in ("choose", "enqueue") and out.get("can") is not False:
                good = False
        else:
            good = fired == want[bool(val)] and out["exc"] is None
            if position in ("first", "ancestor", "second", "twin") and out.get("can") is not True:
                good = False
        verdicts.append(good)
    if "c0" in acts:
        return "false-candidate-fired", {"value": v, "acts": acts}
    if not any(verdicts):
        if v == "missing":
            law = "missing-guard-decided-silently" if fired else "missing-guard-not-reported"
        elif contains(g, "raising") and fired != want.get(bool(v)):
            law = "raising-guard-not-false"
        elif fired != want.get(bool(v), None):
            law = "wrong-branch"
        else:
            law = "can-or-exception-mismatch"
        return law, {"value": v, "fired": fired, "exc": out["exc"], "can": out.get("can"), "aerr": out["aerr"]}
    if not out.get("pong") or not out.get("cfg_same"):
        return "interpreter-disturbed-after-guard", {"pong": out.get("pong"), "cfg_same": out.get("cfg_same"), "exc2": out.get("exc2")}
    if contains(g, "param"):
        # every evaluated parameterised guard must have received its params dict
        for p in out["params"]:
            if "want" not in p:
                return "params-not-delivered", {"params": out["params"]}
    return None


def _shape(g):
    ks = sorted({x["k"] for x in walk_guards(g)})
    return "+".join(ks)


def _tag(engine, law, g, position, gkey, form):
    return f"{engine}|{law}|{position}|{gkey}|{form}|d{depth(g)}"


# ------------------------------------------------------------------ exhaustive
def _enum_worker(args):
    shard, nshards, stride, engines = args
    forms_ = formulas_exhaustive()
    n = nt = 0
    viol = []
    samples = []
    idx = -1
    for g0 in forms_:
        d = depth(g0)
        for position in POSITIONS:
            for gkey in ("guard", "cond"):
                for form in (FORMS if d >= 1 else ["children"]):
                    idx += 1
                    if idx % nshards != shard:
                        continue
                    if stride > 1 and d >= 2 and (idx // nshards) % stride != 0:
                        continue
                    g = with_form(g0, form)
                    for engine in engines:
                        try:
                            out = run_one(g, position, gkey, engine)
                            bad = judge(g, position, engine, out, ACTIVE_SMALL)
                        except Exception as e:  # noqa
                            bad = ("harness-or-parse-exception:" + type(e).__name__, {"msg": str(e)[:200]})
                        n += 1
                        if d >= 1 or contains(g, "raising") or contains(g, "missing"):
                            nt += 1
                            if len(samples) < 2 and d == 2:
                                samples.append({"formula": _render(g) if not (contains(g, "param") or contains(g, "pz")) else str(g), "position": position, "key": gkey,
                                                "engine": engine, "acts": out.get("acts") if isinstance(out, dict) else None})
                        if bad and len(viol) < 30:
                            viol.append({"tag": _tag(engine, bad[0], g, position, gkey, form), "detail": bad[1],
                                         "case": {"formula": g, "position": position, "gkey": gkey, "engine": engine, "tree": "small"}})
    return n, nt, viol, samples


def extra_run(tier, seed, jobs):
    stride = 6 if tier == "quick" else 1
    t0 = time.time()
    ctx = mp.get_context("fork")
    engines = ("sync", "async")
    with ctx.Pool(jobs) as pool:
        parts = pool.map(_enum_worker, [(i, jobs, stride, engines) for i in range(jobs)])
    n = sum(p[0] for p in parts)
    nt = sum(p[1] for p in parts)
    viol = [v for p in parts for v in p[2]]
    samples = [s for p in parts for s in p[3]][:3]
    return {
        "evaluations": n,
        "nontrivial_count": nt,
        "violations": viol,
        "samples": samples,
        "coverage": {
            "exhaustive": stride == 1,
            "enumeration": {"formulas": len(formulas_exhaustive()), "positions": len(POSITIONS), "operand_spellings": len(FORMS),
                            "keys": 2, "engines": 2, "stride_on_depth2": stride, "runs": n, "nontrivial_runs": nt,
                            "wall_s": round(time.time() - t0, 1)},
        },
    }


# ------------------------------------------------------------------ Hypothesis layer (depth <= 4, stateIn spellings)
# ("dee" is never active but its name is a prefix of the active "deep": stateIn must not match by substring)
BIG_IDS = ["m", "m.p", "m.p.r1", "m.p.r1.x", "m.p.r1.y", "m.p.r2", "m.p.r2.u", "m.p.r2.u.deep", "m.p.r2.u.other", "m.p.r2.u.dee", "m.p.r2.u.dee", "m.p.r2.v",
           "m.q", "m.q.x"]


def _unique_suffixes(sid):
    parts = sid.split(".")
    out = []
    for i in range(1, len(parts)):
        suf = ".".join(parts[i:])
        # unambiguous: exactly one state id equals it or ends with "."+suf
        hits = [x for x in BIG_IDS if x == suf or x.endswith("." + suf)]
        if hits == [sid]:
            out.append(suf)
    return out


@st.composite
def _in_atom(draw):
    sid = draw(st.sampled_from(BIG_IDS))
    forms = ["#abs", "abs"] + (["suffix"] if _unique_suffixes(sid) else [])
    form = draw(st.sampled_from(forms))
    sp = {"form": form, "pkey": draw(st.sampled_from(["state", "value"]))}
    if form == "suffix":
        sp["suffix"] = draw(st.sampled_from(_unique_suffixes(sid)))
    return {"k": "in", "state": sid.split(".")[1:], "abs_id": sid, "sp": sp}


def _formula(max_depth):
    atom = st.one_of(st.sampled_from([T, F, R, PT, PF, PC]), st.sampled_from([T, F, R, M]), _in_atom())

    def ext(children):
        return st.one_of(
            st.builds(lambda x, f: {"k": "not", "arg": x, "sp": {"form": f}}, children, st.sampled_from(FORMS)),
            st.builds(lambda op, xs, f: {"k": op, "args": xs, "sp": {"form": f}}, st.sampled_from(["and", "or"]),
                      st.lists(children, min_size=1, max_size=3), st.sampled_from(FORMS[:2])),
        )

    return st.recursive(atom, ext, max_leaves=8)


def plan(tier):
    return [{"name": "main", "examples": 5000 if tier == "quick" else 50000}]


def strategy(tier, campaign):
    return st.fixed_dictionaries({
        "formula": _formula(4),
        "position": st.sampled_from(POSITIONS),
        "gkey": st.sampled_from(["guard", "cond"]),
        "engine": st.sampled_from(["sync", "async"]),
        "tree": st.just("big"),
    })


def check_case(case) -> CaseResult:
    res = CaseResult()
    g, position, gkey, engine = case["formula"], case["position"], case["gkey"], case["engine"]
    tree = case.get("tree", "small")
    active = ACTIVE_BIG if tree == "big" else ACTIVE_SMALL
    try:
        out = run_one(g, position, gkey, engine, tree)
        bad = judge(g, position, engine, out, active)
    except Exception as e:  # noqa
        bad = ("harness-or-parse-exception:" + type(e).__name__, {"msg": str(e)[:300]})
        out = {}
    d = depth(g)
    res.nontrivial = d >= 1 or contains(g, "raising") or contains(g, "missing")
    res.classes = [f"depth:{d}", "pos:" + position, "atoms:" + _shape(g)]
    if bad:
        res.violate(_tag(engine, bad[0], g, position, gkey, "gen"), bad[1])
    res.sample = {"formula": str(_render(g))[:300] if not (contains(g, "param") or contains(g, "pz")) else str(g)[:300], "position": position,
                  "key": gkey, "engine": engine, "acts": out.get("acts")}
    return res
