"""C15 — actor messaging and supervision are exact (model-based)."""
from __future__ import annotations

import asyncio
import copy
import logging

from hypothesis import strategies as st

from .. import findings, vthreads
from ..runner import CaseResult, case_fp
from ..vloop import LoopDeadlock, run_virtual

PROPERTY = "C15"
LEVEL = "exploration"
TECHNIQUE = "model-based (stateful) property testing: generated command sequences drive a generic parent machine whose actor actions read their arguments from the command event; a dict model of actors, mailboxes and pending delayed sends is compared after every command"
RULE = (
    "A generic parent machine executes, per command event, one actor action with callable params read from the event: "
    "spawnChild (explicit id, optional systemId), spawn_<service> (auto id), sendTo by full id / bare id / systemId / "
    "service key / unknown name, delayed sendTo with a send id, cancel(send id), forwardTo, stopChild; children append "
    "every received (seq) to their mailbox, can sendParent, escalate (the parent logs every xstate.error.actor.<id> it handles), spawn a grandchild (optionally with a systemId) and stopChild it "
    "themselves; optional epilogue: a fresh child (blocking spawn on sync) spawns a grandchild and then reaches its own "
    "final state before the parent is stopped. Hypothesis draws sequences of <=14 "
    "commands and virtual-time advances; both engines (sync under the deterministic scheduler, child thread first). "
    "Model: actors {id, systemId, alive, parent}, expected mailboxes, pending delayed sends. After every command: one new "
    "started child per spawn, registered under its id and systemId; each message delivered exactly once, in order, to "
    "exactly the resolved actor, to nobody when the name is unknown or ambiguous; a cancelled delayed send is never "
    "delivered and the others are; after stopChild / parent stop the child and its descendants are stopped, gone from the "
    "persisted actor map and the system registry, and their mailboxes never change again. Non-trivial = a sequence with "
    ">=2 live actors and a message addressed other than by full id, or a cancel, or a stop with descendants; distinct = "
    "distinct command sequences."
)
ASSUMPTIONS = [
    "an id re-used while its actor is alive means: the earlier actor is stopped, the new one takes the id",
    "a delayed send whose addressee was stopped and whose id was re-used by a new actor before the delay ran out is not "
    "judged (sync drops it, async delivers it to the new holder; the statement does not say which)",
    "the service key is used as an address only when exactly one child of that service exists or when several auto-id "
    "children make it ambiguous (must be dropped)",
]
logging.disable(logging.CRITICAL)


def plan(tier):
    q = tier == "quick"
    return [{"name": "main", "examples": 5000 if q else 60000}]


CMD = st.one_of(
    st.tuples(st.just("SPAWN"), st.sampled_from(["k1", "k2", "k3", "k11"]), st.sampled_from([None, None, "sysA", "sysB"])).map(list),
    st.tuples(st.just("SPAWN_AUTO")).map(list),
    st.tuples(st.just("SEND"), st.sampled_from(["par:k1", "par:k2", "k1", "k2", "k3", "sysA", "sysB", "kid", "nobody", "k", "k11", "k1", "sys"])).map(list),
    st.tuples(st.just("SEND"), st.sampled_from(["par:k1", "par:k2", "k1", "k2", "k3", "sysA", "sysB", "kid", "nobody", "k", "k11", "k1", "ki"])).map(list),
    st.tuples(st.just("DSEND"), st.sampled_from(["k1", "k2", "sysA"]), st.sampled_from([20, 50]), st.sampled_from(["d1", "d2"])).map(list),
    st.tuples(st.just("CANCEL"), st.sampled_from(["d1", "d2", "d9"])).map(list),
    st.tuples(st.just("FWD"), st.sampled_from(["k1", "k2", "sysA"])).map(list),
    st.tuples(st.just("STOPC"), st.sampled_from(["k1", "k2", "k3", "sysA", "nobody"])).map(list),
    st.tuples(st.just("ECHO"), st.sampled_from(["k1", "k2"])).map(list),
    st.tuples(st.just("DECHO"), st.sampled_from(["k1", "k2"]), st.sampled_from([20, 50])).map(list),
    st.tuples(st.just("ESC"), st.sampled_from(["k1", "k2", "k11", "sysA", "kid"])).map(list),
    st.tuples(st.just("GRAND"), st.sampled_from(["k1", "k2"]), st.sampled_from([None, None, "sysG1", "sysG2"])).map(list),
    st.tuples(st.just("GSTOP"), st.sampled_from(["k1", "k2"])).map(list),
    st.tuples(st.just("ADV"), st.sampled_from([10, 30, 60])).map(list),
)


def strategy(tier, campaign):
    pre = st.sampled_from([[], [], [["SPAWN", "k1", None]], [["SPAWN", "k1", None], ["GRAND", "k1", "sysG1"]],
                           [["SPAWN", "k2", "sysA"], ["GRAND", "k2", None]], [["SPAWN", "k1", None], ["SPAWN", "k2", None], ["GRAND", "k2", "sysG2"]]])
    cmds = st.builds(lambda a, b: [list(x) for x in a] + b, pre, st.lists(CMD, min_size=2, max_size=12))
    return st.fixed_dictionaries({"engine": st.sampled_from(["async", "sync"]), "cmds": cmds,
                                  "epilogue": st.sampled_from([None, None, "done-child-with-grandchild", "done-blocking-child-with-grandchild"])})


# ----------------------------------------------------------------------------- machines
def machines():
    from xstate_statemachine import MachineLogic, create_machine

    def inbox(i, c, e, a):
        c["inbox"] = list(c.get("inbox") or []) + [e.payload.get("seq")]

    grand = create_machine({"id": "grand", "initial": "a", "context": {"inbox": []}, "states": {
        "a": {"on": {"MSG": {"actions": ["inbox"]}}}}}, logic=MachineLogic(actions={"inbox": inbox}))
    kid = create_machine({"id": "kid", "initial": "a", "context": {"inbox": []}, "states": {"a": {"on": {
        "MSG": {"actions": ["inbox"]},
        "FWDMSG": {"actions": ["inbox"]},
        "ECHO": {"actions": [{"type": "xstate.sendParent", "params": lambda a: {"event": {"type": "FROMKID", "seq": a["event"].payload.get("seq")}}}]},
        "DECHO": {"actions": [{"type": "xstate.sendParent", "params": lambda a: {"event": {"type": "FROMKID", "seq": a["event"].payload.get("seq")},
                                                                                  "delay": a["event"].payload.get("delay")}}]},
        "ESC": {"actions": [{"type": "xstate.escalate", "params": lambda a: {"error": a["event"].payload.get("seq")}}]},
        "GRAND": {"actions": [{"type": "xstate.spawnChild", "params": lambda a: {"src": "grand", "id": "g", "systemId": a["event"].payload.get("gsys")}}]},
        "GSTOP": {"actions": [{"type": "xstate.stopChild", "params": {"id": "g"}}]},
        "FIN": "fin",
    }}, "fin": {"type": "final"}}}, logic=MachineLogic(actions={"inbox": inbox}, services={"grand": grand}))

    def p(key):
        return lambda a: a["event"].payload.get(key)

    par_cfg = {"id": "par", "initial": "on", "context": {"fromkid": []}, "states": {"on": {"on": {
        "SPAWN": {"actions": [{"type": "xstate.spawnChild", "params": lambda a: {"src": "kid", "id": a["event"].payload.get("id"), "systemId": a["event"].payload.get("sys")}}]},
        "SPAWN_AUTO": {"actions": [{"type": "spawn_kid"}]},
        "SEND": {"actions": [{"type": "xstate.sendTo", "params": lambda a: {"to": a["event"].payload.get("to"), "event": {"type": "MSG", "seq": a["event"].payload.get("seq")}}}]},
        "DSEND": {"actions": [{"type": "xstate.sendTo", "params": lambda a: {"to": a["event"].payload.get("to"), "event": {"type": "MSG", "seq": a["event"].payload.get("seq")},
                                                                              "delay": a["event"].payload.get("delay"), "id": a["event"].payload.get("sid")}}]},
        "CANCEL": {"actions": [{"type": "xstate.cancel", "params": lambda a: {"sendId": a["event"].payload.get("sid")}}]},
        "FWDMSG": {"actions": [{"type": "xstate.forwardTo", "params": lambda a: {"to": a["event"].payload.get("to")}}]},
        "STOPC": {"actions": [{"type": "xstate.stopChild", "params": lambda a: {"id": a["event"].payload.get("id")}}]},
        "ECHO": {"actions": [{"type": "xstate.sendTo", "params": lambda a: {"to": a["event"].payload.get("to"), "event": {"type": "ECHO", "seq": a["event"].payload.get("seq")}}}]},
        "GRAND": {"actions": [{"type": "xstate.sendTo", "params": lambda a: {"to": a["event"].payload.get("to"), "event": {"type": "GRAND", "gsys": a["event"].payload.get("gsys")}}}]},
        "GSTOP": {"actions": [{"type": "xstate.sendTo", "params": lambda a: {"to": a["event"].payload.get("to"), "event": {"type": "GSTOP"}}}]},
        "DECHO": {"actions": [{"type": "xstate.sendTo", "params": lambda a: {"to": a["event"].payload.get("to"), "event": {"type": "DECHO", "seq": a["event"].payload.get("seq"), "delay": a["event"].payload.get("delay")}}}]},
        "KFIN": {"actions": [{"type": "xstate.sendTo", "params": lambda a: {"to": a["event"].payload.get("to"), "event": {"type": "FIN"}}}]},
        "SPAWN_BLOCK": {"actions": [{"type": "spawn_blocking_kid", "params": {"id": "z"}}]},
        "FROMKID": {"actions": ["fromkid"]},
        "ESC": {"actions": [{"type": "xstate.sendTo", "params": lambda a: {"to": a["event"].payload.get("to"), "event": {"type": "ESC", "seq": a["event"].payload.get("seq")}}}]},
        # escalations arrive as xstate.error.actor.<child id>; only an exact key can catch them
        **{"xstate.error.actor.par:" + k_: {"actions": ["esc"]} for k_ in ("k1", "k2", "k3", "k11")},
    }}}}

    def esc(i, c, e, a):
        c["esc"] = list(c.get("esc") or []) + [[e.type.split("actor.", 1)[1], e.payload.get("error")]]

    def fromkid(i, c, e, a):
        c["fromkid"] = list(c.get("fromkid") or []) + [e.payload.get("seq")]

    return create_machine(par_cfg, logic=MachineLogic(actions={"fromkid": fromkid, "esc": esc}, services={"kid": kid}))


# ----------------------------------------------------------------------------- model
class Model:
    def __init__(self):
        self.actors = {}      # full id -> dict(alive, sys, inbox, auto, grand)
        self.order = []       # spawn order of full ids
        self.system = {}      # sysid -> full id
        self.pending = {}     # sid -> (due_ms, target id, seq)
        self.now = 0
        self.fromkid = []
        self.n_auto = 0
        self.gen = 0
        self.pending_echo = []   # (due_ms, child id, seq, generation of the child)
        self.esc = []            # [child id, seq] for every escalation the parent has a handler for

    def alive(self):
        return [a for a in self.order if self.actors[a]["alive"]]

    def resolve(self, to):
        """-> (id or None, 'ok'|'unknown'|'ambiguous'|'unspecified')"""
        if to in self.system and self.system[to] in self.actors and self.actors[self.system[to]]["alive"]:
            return self.system[to], "ok"
        if to in self.actors and self.actors[to]["alive"]:
            return to, "ok"
        matches = [a for a in self.alive() if to in a.split(":")[1:]]
        if len(matches) == 1:
            return matches[0], "ok"
        if len(matches) > 1:
            return None, "ambiguous"
        if to == "kid":
            kids = self.alive()
            if len(kids) == 1:
                return kids[0], "ok"
            if len(kids) > 1:
                return None, "unspecified"  # several explicit-id children share the service key
        return None, "unknown"


def _snapshot(it):
    snap = it.get_persisted_snapshot()

    def norm(i):
        parts = i.split(":")
        return ":".join(parts[:2]) + ":<auto>" if len(parts) == 3 and len(parts[2]) > 20 else i

    actors = {}
    for aid, rec_ in snap["actors"].items():
        s = rec_["snapshot"]
        actors[aid] = {"inbox": s["context"].get("inbox"), "status": s["status"], "children": sorted(s["actors"].keys())}
    return {"actors": actors, "system": {k: v for k, v in snap["system"].items()}, "fromkid": snap["context"].get("fromkid"), "esc": snap["context"].get("esc"),
            "live_system": {k: v.id for k, v in it.system.get_all().items()}}


def _payload(cmd, seq, model):
    k = cmd[0]
    if k == "SPAWN":
        return "SPAWN", {"id": cmd[1], "sys": cmd[2], "seq": seq}
    if k == "SPAWN_AUTO":
        return "SPAWN_AUTO", {"seq": seq}
    if k == "SEND":
        return "SEND", {"to": cmd[1], "seq": seq}
    if k == "DSEND":
        return "DSEND", {"to": cmd[1], "delay": cmd[2], "sid": cmd[3], "seq": seq}
    if k == "CANCEL":
        return "CANCEL", {"sid": cmd[1], "seq": seq}
    if k == "FWD":
        return "FWDMSG", {"to": cmd[1], "seq": seq}
    if k == "STOPC":
        return "STOPC", {"id": cmd[1], "seq": seq}
    if k == "ECHO":
        return "ECHO", {"to": cmd[1], "seq": seq}
    if k == "GRAND":
        return "GRAND", {"to": cmd[1], "gsys": cmd[2] if len(cmd) > 2 else None, "seq": seq}
    if k == "GSTOP":
        return "GSTOP", {"to": cmd[1], "seq": seq}
    if k == "DECHO":
        return "DECHO", {"to": cmd[1], "delay": cmd[2], "seq": seq}
    if k == "ESC":
        return "ESC", {"to": cmd[1], "seq": seq}
    raise ValueError(k)


def run(case):
    """Executes the commands; returns list of (cmd, observation) and final info."""
    from xstate_statemachine import Event, Interpreter, SyncInterpreter

    engine, cmds = case["engine"], case["cmds"]
    obs = []
    extra = {}
    if engine == "async":
        async def main(loop):
            it = await Interpreter(machines()).start()

            async def settle():
                for _ in range(6):
                    await it._event_queue.join()
                    for a in _all_actors(it):
                        if getattr(a, "_event_loop_task", None) is not None and not a._event_loop_task.done():
                            await a._event_queue.join()
                    for _ in range(30):
                        await asyncio.sleep(0)
                        if not loop._ready:
                            break

            for i, cmd in enumerate(cmds):
                if cmd[0] == "ADV":
                    await asyncio.sleep(cmd[1] / 1000.0)
                else:
                    t, p = _payload(cmd, i, None)
                    await it.send(Event(t, p))
                await settle()
                obs.append(_snapshot(it))
            if case.get("epilogue"):
                # a child that has reached its own final state while its grandchild is still running
                await it.send(Event("SPAWN", {"id": "z", "sys": None}))
                await settle()
                await it.send(Event("GRAND", {"to": "z", "gsys": None}))
                await settle()
                await it.send(Event("KFIN", {"to": "z"}))
                await settle()
                extra["epilogue"] = [(a.id, a.status) for a in _all_actors(it)]
            kids = list(_all_actors(it)) + list(extra.pop("_seen", []))
            await it.stop()
            await asyncio.sleep(0.2)
            extra["after_stop"] = [(a.id, a.status) for a in kids]
            me = asyncio.current_task()
            extra["tasks"] = [repr(t.get_coro())[:60] for t in asyncio.all_tasks(loop) if t is not me and not t.done()]

        run_virtual(main, max_iterations=300000)
    else:
        sched = vthreads.Sched()
        vthreads.install(sched)
        try:
            it = SyncInterpreter(machines()).start()
            for i, cmd in enumerate(cmds):
                if cmd[0] == "ADV":
                    sched.advance(cmd[1] / 1000.0)
                else:
                    t, p = _payload(cmd, i, None)
                    it.send(Event(t, p))
                sched.settle()
                obs.append(_snapshot(it))
            if case.get("epilogue"):
                blocking = case["epilogue"].startswith("done-blocking")
                it.send(Event("SPAWN_BLOCK", {}) if blocking else Event("SPAWN", {"id": "z", "sys": None}))
                sched.settle()
                it.send(Event("GRAND", {"to": "z", "gsys": None}))
                sched.settle()
                seen = list(_all_actors(it))
                it.send(Event("KFIN", {"to": "z"}))
                sched.advance(0.05)
                sched.settle()
                extra["epilogue"] = [(a.id, a.status) for a in seen]
                extra["_seen"] = seen
            kids = list(_all_actors(it)) + [a for a in extra.pop("_seen", []) if a not in _all_actors(it)]
            it.stop()
            sched.advance(0.2)
            sched.settle()
            extra["after_stop"] = [(a.id, a.status) for a in kids]
            extra["threads"] = sched.live()
        finally:
            sched.shutdown()
            vthreads.uninstall()
    return obs, extra


def _all_actors(it):
    out = []
    for a in list(it._actors.values()):
        out.append(a)
        out.extend(_all_actors(a))
    return out


def check_case(case) -> CaseResult:
    res = CaseResult()
    engine, cmds = case["engine"], case["cmds"]
    res.sample = {"engine": engine, "cmds": cmds}
    try:
        obs, extra = run(case)
    except (LoopDeadlock, vthreads.Deadlock):
        res.inconclusive = "deadlock"
        return res
    except Exception as e:  # noqa
        res.violate(f"{engine}|run-raised|{type(e).__name__}", {"msg": str(e)[:300]})
        return res
    m = Model()
    nontrivial = False
    judged = True
    left = "in-domain"
    for i, (cmd, o) in enumerate(zip(cmds, obs)):
        k = cmd[0]
        # ---- advance the model
        if k == "ADV":
            m.now += cmd[1]
        elif k == "SPAWN":
            full = "par:" + cmd[1]
            if full in m.actors and m.actors[full]["alive"]:
                # an id re-used while its actor is alive: the earlier actor (and its descendants) is
                # stopped and leaves the registry, the new one takes the id
                nontrivial = True
                m.actors[full]["alive"] = False
                for s_, a_ in list(m.system.items()):
                    if a_ == full or a_.startswith(full + ":"):
                        del m.system[s_]
            if cmd[2] and cmd[2] in m.system and (m.system[cmd[2]] not in m.actors or m.actors[m.system[cmd[2]]]["alive"]):
                judged = False  # a live systemId is re-registered: unspecified
                left = "unjudged"
                break
            m.gen += 1
            m.actors[full] = {"alive": True, "sys": cmd[2], "inbox": [], "grand": None, "gen": m.gen}
            if full in m.order:
                m.order.remove(full)
            m.order.append(full)
            if cmd[2]:
                m.system[cmd[2]] = full
        elif k == "SPAWN_AUTO":
            m.n_auto += 1
            full = f"par:kid:<auto{m.n_auto}>"
            m.gen += 1
            m.actors[full] = {"alive": True, "sys": None, "inbox": [], "grand": None, "auto": True, "gen": m.gen}
            m.order.append(full)
        elif k in ("SEND", "FWD"):
            tgt, how = m.resolve(cmd[1])
            if how == "unspecified":
                judged = False
                left = "unjudged"
                break
            if len(m.alive()) >= 2 and not cmd[1].startswith("par:"):
                nontrivial = True
            if tgt is not None:
                m.actors[tgt]["inbox"].append(i)
        elif k == "DSEND":
            tgt, how = m.resolve(cmd[1])
            if how == "unspecified":
                judged = False
                left = "unjudged"
                break
            if tgt is not None:
                if cmd[3] in m.pending:
                    del m.pending[cmd[3]]  # reusing a send id supersedes the earlier send
                m.pending[cmd[3]] = (m.now + cmd[2], tgt, i, m.actors[tgt]["gen"])
        elif k == "CANCEL":
            if cmd[1] in m.pending:
                nontrivial = True
                del m.pending[cmd[1]]
        elif k == "STOPC":
            tgt, how = m.resolve(cmd[1])
            if how == "unspecified":
                judged = False
                left = "unjudged"
                break
            if tgt is not None:
                if m.actors[tgt].get("grand"):
                    nontrivial = True
                m.actors[tgt]["alive"] = False
                for s_, a_ in list(m.system.items()):
                    if a_ == tgt or a_.startswith(tgt + ":"):
                        del m.system[s_]
        elif k == "ECHO":
            tgt, how = m.resolve(cmd[1])
            if tgt is not None:
                m.fromkid.append(i)
        elif k == "ESC":
            tgt, how = m.resolve(cmd[1])
            if how == "unspecified":
                judged = False
                left = "unjudged"
                break
            if tgt is not None and "<auto" not in tgt:
                # the child escalates: its parent - and nobody else - receives xstate.error.actor.<id> once
                m.esc.append([tgt, i])
                nontrivial = nontrivial or len(m.alive()) >= 2
        elif k == "DECHO":
            tgt, how = m.resolve(cmd[1])
            if tgt is not None:
                # the child schedules a delayed sendParent (no send id); a stopped child emits nothing
                m.pending_echo.append((m.now + cmd[2], tgt, i, m.actors[tgt]["gen"]))
                nontrivial = True
        elif k == "GRAND":
            tgt, how = m.resolve(cmd[1])
            gsys = cmd[2] if len(cmd) > 2 else None
            if tgt is not None:
                if m.actors[tgt].get("grand"):
                    # the child re-spawns its grandchild under the same (live) id: the earlier one
                    # is stopped first and its systemId goes with it
                    nontrivial = True
                    if m.actors[tgt].get("gsys"):
                        m.system.pop(m.actors[tgt]["gsys"], None)
                        m.actors[tgt]["gsys"] = None
                if gsys and gsys in m.system:
                    judged = False  # a live systemId is re-registered: unspecified
                    left = "unjudged"
                    break
                m.actors[tgt]["grand"] = True
                m.actors[tgt]["gsys"] = gsys
                if gsys:
                    m.system[gsys] = tgt + ":g"
        elif k == "GSTOP":
            tgt, how = m.resolve(cmd[1])
            if tgt is not None and m.actors[tgt].get("grand"):
                nontrivial = True
                m.actors[tgt]["grand"] = None
                if m.actors[tgt].get("gsys"):
                    m.system.pop(m.actors[tgt]["gsys"], None)
                    m.actors[tgt]["gsys"] = None
        # deliver due delayed sends
        stale_target = False
        # (in order of their deadlines, not of their scheduling: two sends coming due within one
        #  ADV are delivered earliest-deadline first; equal deadlines keep the scheduling order)
        for sid, (due, tgt, seq, gen) in sorted(m.pending.items(), key=lambda kv: kv[1][0]):
            if due <= m.now:
                if m.actors[tgt]["alive"] and m.actors[tgt]["gen"] != gen:
                    # the addressed actor was stopped and its id re-used before the delay ran out:
                    # whether the new holder of the id receives it is not specified (the engines differ)
                    stale_target = True
                elif m.actors[tgt]["alive"]:
                    m.actors[tgt]["inbox"].append(seq)
                del m.pending[sid]
        for ent in sorted(m.pending_echo, key=lambda e_: e_[0]):
            due, tgt, seq, gen = ent
            if due <= m.now:
                if m.actors[tgt]["alive"] and m.actors[tgt]["gen"] == gen:
                    m.fromkid.append(seq)
                m.pending_echo.remove(ent)
        if stale_target:
            judged = False
            left = "unjudged"
            break
        # ---- compare
        real = o["actors"]
        exp_alive = m.alive()
        real_ids = sorted(real)
        # map auto ids in spawn order
        auto_real = sorted([r for r in real_ids if len(r.split(":")) == 3], key=lambda r: r)
        exp_fixed = sorted(a for a in exp_alive if "<auto" not in a)
        real_fixed = sorted(r for r in real_ids if len(r.split(":")) != 3)
        n_auto_alive = sum(1 for a in exp_alive if "<auto" in a)
        if exp_fixed != real_fixed or n_auto_alive != len(auto_real):
            res.violate(f"{engine}|actor-set-differs|after-{k}", {"step": i, "cmd": cmd, "expected": exp_alive, "real": real_ids})
            break
        bad = False
        for a in exp_fixed:
            if real[a]["status"] != "running":
                res.violate(f"{engine}|child-not-running|after-{k}", {"actor": a, "status": real[a]["status"]})
                bad = True
                break
            if real[a]["inbox"] != m.actors[a]["inbox"]:
                addr = cmd[1] if k in ("SEND", "FWD", "DSEND") else "-"
                form = "full-id" if str(addr).startswith("par:") else "sys" if str(addr).startswith("sys") else "key" if addr == "kid" else "bare-id"
                res.violate(f"{engine}|mailbox-differs|after-{k}|{form}", {"step": i, "cmd": cmd, "actor": a, "expected": m.actors[a]["inbox"], "real": real[a]["inbox"]})
                bad = True
                break
            want_g = ["par:" + a.split(":")[1] + ":g"] if m.actors[a].get("grand") else []
            if sorted(real[a]["children"]) != sorted(x for x in want_g) and not (m.actors[a].get("grand") and len(real[a]["children"]) == 1):
                res.violate(f"{engine}|grandchildren-differ|after-{k}", {"actor": a, "real": real[a]["children"], "expected": want_g})
                bad = True
                break
        if bad:
            break
        # auto-id actors: compare multisets of inboxes
        exp_auto = sorted(m.actors[a]["inbox"] for a in exp_alive if "<auto" in a)
        real_auto = sorted(real[r]["inbox"] for r in auto_real)
        if exp_auto != real_auto:
            res.violate(f"{engine}|mailbox-differs|after-{k}|auto-id", {"step": i, "cmd": cmd, "expected": exp_auto, "real": real_auto})
            break
        if sorted(o["live_system"].items()) != sorted(m.system.items()):
            res.violate(f"{engine}|system-registry-differs|after-{k}", {"step": i, "cmd": cmd, "expected": m.system, "real": o["live_system"]})
            break
        if (o["esc"] or []) != m.esc:
            res.violate(f"{engine}|escalate-delivery-differs|after-{k}", {"expected": m.esc, "real": o["esc"]})
            break
        if (o["fromkid"] or []) != m.fromkid:
            res.violate(f"{engine}|sendParent-delivery-differs|after-{k}", {"expected": m.fromkid, "real": o["fromkid"]})
            break
    if not judged:
        res.classes.append("left-domain")
    # ---- parent stop: every actor (incl. grandchildren) stopped
    alive_after = [(a, s) for a, s in extra.get("after_stop", []) if s == "running"]
    if left == "unjudged":
        # the sequence left the modelled domain before its end: later commands may have reused a
        # live id, so the census cannot be attributed
        alive_after, extra = [], {}
    if alive_after:
        res.violate(f"{engine}|actor-running-after-parent-stop|{left}", {"actors": [a[:40] for a, _ in alive_after]})
    if extra.get("tasks"):
        res.violate(f"async|tasks-alive-after-parent-stop|{left}", {"tasks": extra["tasks"][:4]})
    if extra.get("threads"):
        res.violate(f"sync|threads-alive-after-parent-stop|{left}", {"threads": [t[:40] for t in extra["threads"]][:4]})
    res.nontrivial = nontrivial
    res.nontrivial_keys = [case_fp(case)]
    seen = set()
    uniq = []
    for t, d_ in res.violations:
        if t not in seen:
            seen.add(t)
            uniq.append((t, d_))
    res.violations = uniq
    return res
