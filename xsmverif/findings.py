"""known_findings.json loader.  The file is committed and never written at run time."""
from __future__ import annotations

import fnmatch
import json
import os
from typing import Dict, List, Optional

ROOT = os.path.dirname(os.path.dirname(os.path.abspath(__file__)))
PATH = os.path.join(ROOT, "known_findings.json")


class Finding:
    def __init__(self, d: dict):
        self.property: str = d["property"]
        self.tag: str = d["tag"]  # exact tag or fnmatch pattern
        self.status: str = d.get("status", "open")
        self.what: str = d.get("what", "")
        self.replay: Optional[str] = d.get("replay")
        self.commit: Optional[str] = d.get("commit")
        self.id: str = d.get("id", "")
        #: generator profile overrides that keep this finding's shape out of the main campaign
        self.exclude_profile: dict = d.get("exclude_profile") or {}

    def matches(self, prop: str, tag: str) -> bool:
        return self.property == prop and (self.tag == tag or fnmatch.fnmatchcase(tag, self.tag))


def load() -> List[Finding]:
    if not os.path.exists(PATH):
        return []
    with open(PATH) as f:
        data = json.load(f)
    return [Finding(d) for d in data.get("findings", [])]


def open_for(prop: str) -> List[Finding]:
    return [f for f in load() if f.property == prop and f.status == "open"]


def match_open(findings: List[Finding], prop: str, tag: str) -> Optional[Finding]:
    for f in findings:
        if f.status == "open" and f.matches(prop, tag):
            return f
    return None


def main_and_probe_profiles(prop: str, base: dict):
    """-> (main_profile_overrides, {probe_name: probe_overrides}).

    The main campaign excludes the shape of every open finding by construction; one probe
    campaign per open finding generates that shape (all other exclusions still applied)."""
    opens = [f for f in open_for(prop) if f.exclude_profile]

    def merged(skip=None):
        out = dict(base)
        classes = list(base.get("exclude_classes", []))
        for f in opens:
            if f is skip:
                continue
            for k, v in f.exclude_profile.items():
                if k == "exclude_classes":
                    classes += [c for c in v if c not in classes]
                else:
                    out[k] = v
        out["exclude_classes"] = classes
        return out

    probes = {}
    for f in opens:
        prof = merged(skip=f)
        w = {c: 12 for c in f.exclude_profile.get("exclude_classes", [])}
        if w:
            prof["class_weights"] = w
        probes["probe:" + (f.id or f.tag)] = prof
    return merged(), probes
