"""Property-based verification machinery for basiltt/xstate-statemachine (properties C01-C20)."""
