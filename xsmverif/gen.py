"""Hypothesis strategies producing MachineSpecs and event histories.

Everything random comes from Hypothesis draws (so cases shrink and replay).  A `Profile` (plain
dict) selects features and lists the shapes excluded because they belong to an *open* known
finding; every exclusion is counted in `spec["_excluded"]`.
"""
from __future__ import annotations

from typing import Any, Dict, List, Optional

from hypothesis import strategies as st

from .render import finalize
from .tree import Tree, relation_class

KEYS = ["a", "b", "c", "d"]
LONG = {"a": "alpha_long_state_name", "b": "bravo_verbose_identifier", "c": "charlie_wordy", "d": "delta_extended"}
EVENTS = ["A", "B", "C", "D"]
RAISED = ["R1", "R2"]

DEFAULT_PROFILE: Dict[str, Any] = {
    "max_depth": 3,
    "max_children": 3,
    "max_states": 24,
    "n_events": 4,
    "p_handler": 30,        # percent chance a state handles a given event
    "max_cands": 3,
    "guards": "tab",        # tab | ctx | none
    "p_guard": 45,
    "raising_guards": False,
    "always": True,
    "ondone": True,
    "raise": True,
    "assign": True,
    "history": True,
    "hist_under_parallel": True,
    "final": True,
    "final_under_root": True,
    "p_composite_guard": 0,
    "parallel": True,
    "after": False,
    "invoke": False,
    "nested_builtins": False,
    "two_markers": False,
    "long_keys": False,
    "wildcards": False,
    "null_transitions": False,
    "max_iterations": 30,
    "cids": False,
    "output": False,
    "unhandled_service_errors": True,   # a raising service without onError (-> _fail)
    "p_always": 12,          # percent chance a state declares an `always` transition
    "prefix_keys": False,    # sibling keys where one is a textual prefix of another (a / ab)
    "hist_at_root": False,   # history child directly under the machine root
    # exclusions (open findings); each entry is a relation class or a named shape
    "exclude_classes": [],
    "class_weights": None,
}


def profile(**kw) -> Dict[str, Any]:
    p = dict(DEFAULT_PROFILE)
    p.update(kw)
    return p


class D:
    """Thin wrapper around `draw` with the handful of primitives the generator needs."""

    def __init__(self, draw):
        self.draw = draw

    def chance(self, pct: int) -> bool:
        if pct <= 0:
            return False
        if pct >= 100:
            return True
        return self.draw(st.integers(0, 99)) >= 100 - pct

    def pick(self, items: list):
        return items[self.draw(st.integers(0, len(items) - 1))]

    def int(self, a: int, b: int) -> int:
        return self.draw(st.integers(a, b))


# ----------------------------------------------------------------------------- tree
def _gen_state(d: D, prof, depth: int, key: str, parent_kind: Optional[str], budget: List[int], force_kind=None,
               allow_final=True) -> dict:
    budget[0] -= 1
    maxd = prof["max_depth"]
    if force_kind:
        kind = force_kind
    elif depth >= maxd or budget[0] <= 1:
        kind = "final" if (allow_final and prof["final"] and parent_kind == "compound" and d.chance(20)) else "atomic"
    else:
        r = d.int(0, 99)
        if r < 40 - depth * 5:
            kind = "compound"
        elif r < 60 - depth * 5 and prof["parallel"]:
            kind = "parallel"
        elif r < 72 and allow_final and prof["final"] and parent_kind == "compound":
            kind = "final"
        else:
            kind = "atomic"
    s: Dict[str, Any] = {"key": key, "kind": kind}
    if kind in ("compound", "parallel"):
        n = d.int(1 if kind == "compound" else 2, prof["max_children"])
        n = max(1, min(n, max(1, budget[0] - 1)))
        if kind == "parallel" and n < 2:
            n = 2
        kids = []
        for i in range(n):
            k = KEYS[i]
            if prof["long_keys"] and d.chance(30):
                k = LONG[k]
            elif prof.get("prefix_keys") and i >= 1 and d.chance(25):
                k = KEYS[0] + KEYS[i]  # "ab" next to its sibling "a": ids that only share a text prefix
            # first child of a compound state is its default initial: keep it non-final mostly
            af = not (kind == "compound" and i == 0 and not d.chance(10))
            kids.append(_gen_state(d, prof, depth + 1, k, kind, budget, allow_final=af))
        s["children"] = kids
        if kind == "compound":
            s["initial"] = kids[d.int(0, len(kids) - 1)]["key"] if d.chance(30) else kids[0]["key"]
        if prof["history"] and depth >= (0 if prof.get("hist_at_root") else 1):
            if kind == "compound" or prof["hist_under_parallel"]:
                if d.chance(35):
                    h: Dict[str, Any] = {"key": "h", "kind": "history", "hist": "deep" if d.chance(50) else "shallow"}
                    kids.append(h)
                    if d.chance(15):
                        kids.append({"key": "h2", "kind": "history", "hist": "shallow" if h["hist"] == "deep" else "deep"})
    return s


def _all_paths(s: dict, path=()):
    yield path, s
    for c in s.get("children", []):
        yield from _all_paths(c, path + (c["key"],))


def _targets_by_class(tree: Tree, src: str) -> Dict[str, List[str]]:
    out: Dict[str, List[str]] = {}
    for t in tree.nodes:
        cls = relation_class(tree, src, t, False)
        out.setdefault(cls, []).append(t)
    out["targetless"] = [None]
    out["self-reenter"] = [src]
    return out


def _id_to_path(tree: Tree, id: Optional[str]):
    if id is None:
        return None
    return id.split(".")[1:]


def _gen_guard(d: D, prof, spec) -> Optional[dict]:
    mode = prof["guards"]
    if mode == "none" or not d.chance(prof["p_guard"]):
        return None
    if mode == "ctx":
        op = d.pick(["even", "odd", "lt", "ge"])
        val = d.int(1, 3) if op in ("lt", "ge") else 0
        return {"k": "ctx", "key": "n", "op": op, "val": val}
    name = "g" + str(d.int(0, 4))
    if name not in spec["tables"]:
        L = 4
        vals: List[Any] = []
        for _ in range(L):
            r = d.int(0, 9)
            if prof["raising_guards"] and r == 9:
                vals.append("raise")
            else:
                vals.append(r >= 4)
        spec["tables"][name] = vals
    g = {"k": "tab", "name": name}
    if prof.get("p_composite_guard") and d.chance(prof["p_composite_guard"]):
        # same composite kind on several candidates of one list, different operands
        kind = d.pick(["not", "and", "or"])
        if kind == "not":
            return {"k": "not", "arg": g}
        other = "g" + str(d.int(0, 4))
        if other not in spec["tables"]:
            spec["tables"][other] = [d.int(0, 9) >= 4 for _ in range(4)]
        return {"k": kind, "args": [g, {"k": "tab", "name": other}]}
    return g


def _gen_actions(d: D, prof, spec, raise_pool: List[str], depth=0) -> List[dict]:
    acts: List[dict] = []
    if prof["two_markers"] and d.chance(40):
        acts.append({"k": "mark", "name": "x" + str(spec["_nx"])})
        spec["_nx"] += 1
    if prof["assign"] and d.chance(30):
        acts.append({"k": "assign", "ops": [["inc", "n"]]})
    if prof["raise"] and raise_pool and d.chance(15):
        acts.append({"k": "raise", "event": d.pick(raise_pool)})
    if prof["nested_builtins"] and depth < 2 and d.chance(20):
        kind = d.pick(["choose", "pure", "enqueue"])
        inner = [{"k": "mark", "name": "x" + str(spec["_nx"])}]
        spec["_nx"] += 1
        inner += _gen_actions(d, prof, spec, raise_pool, depth + 1)
        if kind == "choose":
            g = _gen_guard(d, prof, spec)
            other = [{"k": "mark", "name": "x" + str(spec["_nx"])}]
            spec["_nx"] += 1
            acts.append({"k": "choose", "branches": [{"guard": g, "actions": inner}, {"guard": None, "actions": other}]})
        elif kind == "pure":
            acts.append({"k": "pure", "actions": inner})
        else:
            acts.append({"k": "enqueue", "actions": inner, "check": None})
    return acts


def _gen_transition(d: D, prof, spec, tree: Tree, src: str, raise_pool: List[str], classes=None,
                    need_guard=False, no_null=False, count_excluded=True) -> dict:
    by = _targets_by_class(tree, src)
    excl = set(prof["exclude_classes"])
    avail = sorted(c for c in by if (classes is None or c in classes))
    allowed = [c for c in avail if c not in excl]
    if not allowed:
        allowed = ["targetless"]
    if prof.get("class_weights"):
        w = prof["class_weights"]
        pool = []
        for c in allowed:
            pool += [c] * int(w.get(c, 1))
        cls = d.pick(pool or allowed)
    else:
        cls = d.pick(allowed)
    # count what the exclusion removed from this draw's domain
    for c in avail:
        if c in excl and count_excluded:
            spec["_excluded"][c] = spec["_excluded"].get(c, 0) + 1
    tgt = d.pick(by[cls])
    t: Dict[str, Any] = {"target": _id_to_path(tree, tgt)}
    if cls == "self-reenter" or (tgt is not None and d.chance(8)):
        t["reenter"] = True
    g = _gen_guard(d, prof, spec)
    if g is None and need_guard:
        save = prof["p_guard"]
        prof = dict(prof, p_guard=100, guards=("tab" if prof["guards"] == "none" else prof["guards"]))
        g = _gen_guard(d, prof, spec)
        prof = dict(prof, p_guard=save)
    if g is not None:
        t["guard"] = g
    t["actions"] = _gen_actions(d, prof, spec, raise_pool)
    return t


def _populate(d: D, prof, spec):
    tree = Tree(spec)
    events = EVENTS[: prof["n_events"]]
    for path, s in _all_paths(spec["root"]):
        sid = tree.mid if not path else tree.mid + "." + ".".join(path)
        if s["kind"] == "history":
            if d.chance(40):
                par = tree[sid].parent
                cands = [x for x in tree.descendants(par) if tree[x].kind != "history"]
                if cands:
                    s["htarget"] = _id_to_path(tree, d.pick(cands))
            continue
        s["entry"] = _gen_actions(d, prof, spec, RAISED if prof["raise"] and prof.get("raise_in_entry", True) and d.chance(15) else [])
        s["exit"] = _gen_actions(d, prof, spec, [])
        if s["kind"] == "final":
            if prof["output"] and d.chance(50):
                s["output"] = {"k": "lit", "val": {"o": sid}} if d.chance(60) else {"k": "call", "key": "n"}
            continue
        on = []
        for ev in events:
            if d.chance(prof["p_handler"]):
                n = 1 + (d.int(0, prof["max_cands"] - 1) if d.chance(45) else 0)
                cands = [_gen_transition(d, prof, spec, tree, sid, RAISED) for _ in range(n)]
                on.append([ev, cands])
            elif prof["null_transitions"] and d.chance(5):
                on.append([ev, [{"null": True}]])
        if prof["raise"]:
            for i, ev in enumerate(RAISED):
                if d.chance(25):
                    pool = RAISED[i + 1:]
                    on.append([ev, [_gen_transition(d, prof, spec, tree, sid, pool)]])
        if prof["wildcards"] and d.chance(10):
            on.append(["*", [_gen_transition(d, prof, spec, tree, sid, [])]])
        if on:
            s["on"] = on
        if prof["always"] and d.chance(prof.get("p_always", 12)):
            s["always"] = [_gen_transition(d, prof, spec, tree, sid, [], need_guard=True)]
        if prof["ondone"] and s["kind"] in ("compound", "parallel") and path and d.chance(50):
            # onDone back into the completed state's own line (self/ancestor/descendant) re-completes
            # it at once: an endless done.state chain, which is C13's subject, not this profile's
            loopy = ["self", "self-reenter", "child", "descendant", "parent", "ancestor", "root", "targetless",
                     "history-inside-compound", "history-inside-parallel"]
            p2 = dict(prof, p_guard=0)
            if not prof.get("ondone_loops"):
                p2["exclude_classes"] = list(prof["exclude_classes"]) + loopy
            s["onDone"] = _gen_transition(d, p2, spec, tree, sid, [], count_excluded=False)
            s["onDone"].pop("guard", None)
        if prof["after"] and d.chance(15):
            af = []
            for _ in range(1 + (1 if d.chance(25) else 0)):
                delay = d.pick([10, 20, 50])
                if any(x[0] == delay for x in af):
                    continue
                af.append([delay, [_gen_transition(d, prof, spec, tree, sid, [])]])
            s["after"] = af
        if prof["invoke"] and d.chance(12):
            name = "svc" + str(d.int(0, 2))
            if name not in spec["services"]:
                spec["services"][name] = {"k": "sync", "outcome": "raise" if d.chance(30) else "return",
                                          "value": {"v": d.int(0, 3)}}
            inv: Dict[str, Any] = {"src": name, "id": "i" + str(spec["_ninv"])}
            spec["_ninv"] += 1
            # a handler that exits and re-enters the invoking state restarts the (synchronous)
            # service at once: an endless done.invoke chain (C13's subject)
            p3 = prof
            if not prof.get("invoke_loops"):
                p3 = dict(prof, exclude_classes=list(prof["exclude_classes"]) + ["self-reenter", "parent", "ancestor", "root"])
            if d.chance(80):
                inv["onDone"] = [_gen_transition(d, p3, spec, tree, sid, [], count_excluded=False)]
            if d.chance(70):
                inv["onError"] = [_gen_transition(d, p3, spec, tree, sid, [], count_excluded=False)]
            elif not prof["unhandled_service_errors"] and spec["services"][name]["outcome"] == "raise":
                inv["onError"] = [_gen_transition(d, p3, spec, tree, sid, [], count_excluded=False)]
                spec["_excluded"]["unhandled-service-error"] = spec["_excluded"].get("unhandled-service-error", 0) + 1
            s["invoke"] = [inv]
    if prof["output"] and d.chance(30):
        spec["output"] = {"k": "lit", "val": {"machine": True}}


@st.composite
def machine_specs(draw, prof: Optional[dict] = None):
    prof = prof or DEFAULT_PROFILE
    d = D(draw)
    budget = [prof["max_states"]]
    root_kind = "parallel" if (prof["parallel"] and d.chance(25)) else "compound"
    root = _gen_state(d, dict(prof), 0, "m", None, budget, force_kind=root_kind)
    root["key"] = "m"
    if not prof["final_under_root"]:
        for c in root.get("children", []):
            if c["kind"] == "final":
                c["kind"] = "atomic"
    spec: Dict[str, Any] = {
        "id": "m",
        "root": root,
        "context": {"n": 0},
        "maxIterations": prof["max_iterations"],
        "tables": {},
        "services": {},
        "_nx": 0,
        "_ninv": 0,
        "_excluded": {},
    }
    _populate(d, prof, spec)
    finalize(spec)
    return spec


@st.composite
def histories(draw, prof: Optional[dict] = None, max_len: int = 12, advance: bool = False, unknown: bool = True):
    prof = prof or DEFAULT_PROFILE
    d = D(draw)
    n = d.int(1, max_len)
    evs = EVENTS[: prof["n_events"]] + (["ZZ"] if unknown else [])
    out = []
    for i in range(n):
        if advance and d.chance(25):
            out.append(["advance", d.pick([5, 10, 20, 60])])
        else:
            out.append(["send", d.pick(evs), i])
    return out
