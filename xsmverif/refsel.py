"""Reference transition selection (independent of the library).

`nominees(idx, config, event, gval)` implements the rule stated in C02/C20:
for each active atomic/final leaf, walk ancestor-or-self from the leaf upward; at each state the
candidate list for the event is the matching descriptor keys in priority order (exact, partial
`p.*` by decreasing prefix length, then `*`; internal events only by their exact handler), each
key's transitions in declaration order; a null transition consumes the event at that state (the
walk stops); the first candidate whose guard value is true is the leaf's nominee.  The result is
the set of nominated transition ids (a transition nominated by several leaves appears once)."""
from __future__ import annotations

from typing import Any, Callable, Dict, List, Optional, Set, Tuple

from .render import Index, TransInfo, eval_guard

INTERNAL_PREFIXES = ("done.", "error.", "after.", "xstate.")


def matching_keys(keys: List[str], event_type: str) -> List[str]:
    """The 15-line reference matcher."""
    out: List[str] = []
    if not event_type:
        return out
    if event_type in keys:
        out.append(event_type)
    if event_type.startswith(INTERNAL_PREFIXES):
        return out
    parts = []
    for k in keys:
        if k != "*" and k.endswith(".*"):
            p = k[:-2]
            if event_type == p or event_type.startswith(p + "."):
                parts.append(k)
    parts.sort(key=len, reverse=True)
    out.extend(parts)
    if "*" in keys:
        out.append("*")
    return out


class Event:
    """kind: 'ext' (type), 'always', 'done.state' (state id), 'after' (state id, delay),
    'done.invoke' / 'error.platform' (invoke id)."""

    def __init__(self, kind: str, type: str = "", ref: Any = None):
        self.kind = kind
        self.type = type
        self.ref = ref

    @staticmethod
    def from_type(t: str) -> "Event":
        if t == "":
            return Event("always", "")
        if t.startswith("done.state."):
            return Event("done.state", t, t[len("done.state."):])
        if t.startswith("done.invoke."):
            return Event("done.invoke", t, t[len("done.invoke."):])
        if t.startswith("error.platform."):
            return Event("error.platform", t, t[len("error.platform."):])
        if t.startswith("after."):
            rest = t[len("after."):]
            delay, sid = rest.split(".", 1)
            return Event("after", t, (sid, delay))
        return Event("ext", t)


def candidates_at(idx: Index, sid: str, ev: Event) -> Tuple[List[TransInfo], bool]:
    """Ordered candidates declared on state `sid` for `ev`, and whether a null transition blocks
    the upward walk at this state."""
    tis = idx.by_state.get(sid, [])
    out: List[TransInfo] = []
    blocked = False
    if ev.kind == "always":
        return [t for t in tis if t.family == "always"], False
    # `on` handlers (every event kind can be matched by an exact `on` key)
    on_keys: List[str] = []
    for t in tis:
        if t.family == "on" and t.key not in on_keys:
            on_keys.append(t.key)
    for k in matching_keys(on_keys, ev.type):
        for t in tis:
            if t.family == "on" and t.key == k:
                if t.spec.get("null"):
                    blocked = True
                    break
                out.append(t)
        if blocked:
            break
    if blocked:
        return out, True
    if ev.kind == "done.state" and ev.ref == sid:
        out += [t for t in tis if t.family == "onDone"]
    elif ev.kind == "after" and ev.ref[0] == sid:
        out += [t for t in tis if t.family == "after" and str(t.key) == str(ev.ref[1])]
    elif ev.kind == "done.invoke":
        out += [t for t in tis if t.family == "invDone" and str(t.key) == str(ev.ref)]
    elif ev.kind == "error.platform":
        out += [t for t in tis if t.family == "invError" and str(t.key) == str(ev.ref)]
    return out, False


def nominees(idx: Index, config: Set[str], ev: Event, atoms: Callable[[dict], Any]) -> Dict[str, Optional[TransInfo]]:
    """leaf id -> nominated TransInfo (or None).  Raises KeyError('missing') semantics are the
    caller's business: `atoms` may return 'missing'."""
    tree = idx.tree
    out: Dict[str, Optional[TransInfo]] = {}
    for leaf in tree.leaves(config):
        nom = None
        for sid in tree.anc_or_self(leaf):
            cands, blocked = candidates_at(idx, sid, ev)
            if ev.kind == "done.state":
                # a queued done.state.X only drives X's onDone while X is (still) done: a stale
                # notification - X re-entered or un-completed meanwhile - selects nothing (C10)
                cands = [t for t in cands if t.family != "onDone" or tree.done(sid, set(config))]
            for t in cands:
                v = eval_guard(t.guard, atoms)
                if v == "missing":
                    out[leaf] = t  # caller decides; flagged through atoms
                    nom = ("missing", t)
                    break
                if v:
                    nom = t
                    break
            if nom is not None or blocked:
                break
        out[leaf] = None if nom is None else (nom if isinstance(nom, TransInfo) else nom[1])
    return out


def nominee_set(noms: Dict[str, Optional[TransInfo]]) -> List[TransInfo]:
    seen = []
    for leaf in sorted(noms):
        t = noms[leaf]
        if t is not None and t not in seen:
            seen.append(t)
    return seen


def table_atoms(spec: dict, epoch: int, config: Set[str]):
    """Atom valuation for table/const/stateIn/param guards at a given epoch and configuration."""
    tables = spec.get("tables", {})
    mid = spec["id"]

    def atoms(g: dict):
        k = g["k"]
        if k == "tab":
            tab = tables[g["name"]]
            v = tab[epoch % len(tab)]
            return False if v == "raise" else bool(v)
        if k == "const":
            return bool(g["val"])
        if k == "raising":
            return False
        if k == "missing":
            return "missing"
        if k == "param":
            return bool((g.get("params") or {}).get("want"))
        if k == "in":
            sid = mid if not g["state"] else mid + "." + ".".join(g["state"])
            return sid in config
        raise ValueError(k)

    return atoms
