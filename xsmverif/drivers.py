"""Drivers: run one (spec, history) on the sync / async / pure engines and return a Run.

History ops (JSON lists):
  ["send", type, seq]            send Event(type, payload={"seq": seq})
  ["sendp", type, seq, payload]  send with extra payload
  ["batch", [[type, seq], ...]]  send_events
  ["advance", ms]                let virtual time pass
  ["stop"]                       stop()
  ["start"]                      start() (again)
  ["can", type]                  query can(type) (recorded in the step observation)
  ["snap"]                       take get_snapshot() (recorded)
`start()` is implicit before the first op unless opts["no_autostart"].
"""
from __future__ import annotations

import asyncio
import copy
import json
import logging
from typing import Any, Dict, List, Optional

from . import vthreads
from .recorder import (InjectedFault, Recorder, StepBudgetExceeded, Tap, make_emit_listener,
                       make_subscriber, make_witness_subscriber)
from .render import build
from .vloop import LoopDeadlock, run_virtual

logging.disable(logging.CRITICAL)


class Obs:
    """Observation at a quiescent point."""

    __slots__ = ("op", "cfg", "leaves", "ctx", "status", "output", "error", "log", "exc", "snapcfg",
                 "hist", "extra", "vt", "legal_in_snap")

    def __init__(self):
        self.op = None
        self.cfg = frozenset()
        self.leaves = frozenset()
        self.ctx = None
        self.status = None
        self.output = None
        self.error = None
        self.log: List[tuple] = []
        self.exc: Optional[str] = None
        self.snapcfg = None
        self.hist = None
        self.extra: Dict[str, Any] = {}
        self.vt = 0.0

    def key(self):
        return (tuple(sorted(self.cfg)), _freeze(self.ctx), self.status, _freeze(self.output), self.error)

    def brief(self):
        return {
            "op": self.op,
            "leaves": sorted(self.leaves),
            "ctx": self.ctx,
            "status": self.status,
            "exc": self.exc,
            "acts": [e[1] for e in self.log if e[0] == "act"],
        }


def _freeze(x):
    try:
        return json.dumps(x, sort_keys=True, default=repr)
    except Exception:
        return repr(x)


class Run:
    def __init__(self, engine: str):
        self.engine = engine
        self.steps: List[Obs] = []
        self.rec: Optional[Recorder] = None
        self.aborted: Optional[str] = None  # "budget" | "deadlock" | None
        self.create_exc: Optional[str] = None
        self.create_exc_obj = None
        self.interp = None
        self.census_after_stop = None
        self.sched_live = None
        self.thread_excs: List[str] = []

    def all_log(self):
        out = []
        for s in self.steps:
            out.extend(s.log)
        return out


def observe(interp, rec: Recorder, op, mark: int, exc=None) -> Obs:
    o = Obs()
    o.op = op
    o.cfg = frozenset(n.id for n in list(interp._active_state_nodes))
    o.leaves = frozenset(interp.current_state_ids)
    o.ctx = copy.deepcopy(interp.context)
    o.status = interp.status
    o.output = copy.deepcopy(interp.output)
    o.error = None if interp.error is None else type(interp.error).__name__ + ":" + str(interp.error)
    o.log = rec.log[mark:]
    o.exc = exc
    try:
        snap = interp.get_persisted_snapshot()
        o.snapcfg = frozenset(snap["configuration"])
        o.hist = {k: tuple(v) for k, v in snap["history"].items()}
    except StepBudgetExceeded:
        raise
    except Exception as e:  # noqa
        o.snapcfg = None
        o.extra["snap_exc"] = type(e).__name__
    try:
        # owners (state ids) of timers / service tasks that are still pending
        tm = getattr(interp, "task_manager", None)
        if tm is not None:
            o.extra["task_owners"] = sorted(k for k, ts in list(tm._tasks_by_owner.items()) if any(not t.done() for t in ts))
        elif hasattr(interp, "_after_events"):
            o.extra["task_owners"] = sorted({k.split("::")[0] for k in list(interp._after_events.keys())})
    except Exception:  # noqa
        pass
    try:
        o.extra["actors_running"] = sorted(k for k, a in list(getattr(interp, "_actors", {}).items()) if getattr(a, "status", None) == "running")
    except Exception:  # noqa
        pass
    o.vt = rec.now()
    return o


def _exc_name(e: BaseException) -> str:
    return type(e).__name__


def is_library_error(e: BaseException) -> bool:
    from xstate_statemachine.exceptions import XStateMachineError

    return isinstance(e, XStateMachineError)


def _mk_event(op):
    from xstate_statemachine import Event

    if op[0] == "send":
        return Event(type=op[1], payload={"seq": op[2]})
    if op[0] == "sendp":
        p = {"seq": op[2]}
        p.update(op[3] or {})
        return Event(type=op[1], payload=p)
    raise ValueError(op)


# =============================================================================== sync
def run_sync(spec: dict, history: List[list], opts: Optional[dict] = None) -> Run:
    from xstate_statemachine import SyncInterpreter, create_machine

    opts = opts or {}
    run = Run("sync")
    sched = None
    if opts.get("vthreads", True):
        chooser = None
        if opts.get("choices") is not None:
            it = iter(opts["choices"])
            chooser = lambda names: next(it, 0)  # noqa
        sched = vthreads.Sched(chooser=chooser, yield_on_start=opts.get("yield_on_start", True))
    rec = Recorder(budget=opts.get("budget", 5000), clock=(lambda: sched.now) if sched else None)
    rec.fault_plan = set(opts.get("faults") or [])
    rec.record_sites = bool(opts.get("record_sites"))
    run.rec = rec
    if sched:
        vthreads.install(sched)
    interp = None
    try:
        try:
            cfg, logic = build(spec, rec, sleeper=(sched.sleep if sched else None))
            machine = create_machine(cfg, logic=logic)
            interp = SyncInterpreter(machine)
        except StepBudgetExceeded:
            run.aborted = "budget"
            return run
        except Exception as e:  # noqa
            run.create_exc = _exc_name(e)
            run.create_exc_obj = e
            return run
        run.interp = interp
        rec.interp = interp
        if not opts.get("no_tap"):
            interp.use(Tap(rec))
            interp.subscribe(make_subscriber(rec))
            if opts.get("witness_subscriber"):
                interp.subscribe(make_witness_subscriber(rec))
            interp.on("*", make_emit_listener(rec))
        ops = list(history)
        if not opts.get("no_autostart"):
            ops = [["start"]] + ops
        try:
            for op in ops:
                m = rec.mark()
                exc = None
                extra = {}
                try:
                    if op[0] == "start":
                        interp.start()
                    elif op[0] in ("send", "sendp"):
                        interp.send(_mk_event(op))
                    elif op[0] == "send!":
                        # send and do NOT let other threads run before the next op
                        interp.send(_mk_event(["send", op[1], op[2]]))
                    elif op[0] == "batch":
                        from xstate_statemachine import Event

                        interp.send_events([Event(type=t, payload={"seq": q}) for t, q in op[1]])
                    elif op[0] == "advance":
                        if sched:
                            sched.advance(op[1] / 1000.0)
                    elif op[0] == "stop":
                        interp.stop()
                        if sched:
                            sched.settle()
                            extra["live_after_stop"] = list(sched.live())
                    elif op[0] == "can":
                        extra["can"] = interp.can(op[1])
                    elif op[0] == "snap":
                        extra["snap"] = interp.get_snapshot()
                    elif op[0] == "psnap":
                        extra["psnap"] = interp.get_persisted_snapshot()
                        extra["psnap_copy"] = copy.deepcopy(extra["psnap"])
                    elif op[0] == "restore":
                        # crash/resume: snapshot, throw the interpreter away, restore into a fresh
                        # interpreter over a freshly built machine definition
                        snap_s = interp.get_snapshot()
                        extra["snap"] = snap_s
                        old = interp
                        cfg2, logic2 = build(spec, rec, sleeper=(sched.sleep if sched else None))
                        machine2 = create_machine(cfg2, logic=logic2)
                        interp = SyncInterpreter.from_snapshot(snap_s, machine2)
                        run.interp = interp
                        rec.interp = interp
                        if not opts.get("no_tap"):
                            interp.use(Tap(rec))
                            interp.subscribe(make_subscriber(rec))
                            if opts.get("witness_subscriber"):
                                interp.subscribe(make_witness_subscriber(rec))
                            interp.on("*", make_emit_listener(rec))
                        old.stop()
                        extra["resnap"] = interp.get_snapshot()
                    else:
                        raise ValueError(op)
                    if sched and op[0] not in ("advance", "send!"):
                        sched.settle()
                    if rec.blown:
                        raise StepBudgetExceeded("budget blown in another thread")
                except StepBudgetExceeded:
                    raise
                except vthreads.Deadlock:
                    run.aborted = "deadlock"
                    break
                except Exception as e:  # noqa
                    exc = _exc_name(e)
                    extra["exc_is_lib"] = is_library_error(e)
                    extra["exc_msg"] = str(e)[:200]
                o = observe(interp, rec, op, m, exc)
                o.extra.update(extra)
                run.steps.append(o)
        except StepBudgetExceeded:
            run.aborted = "budget"
        if sched:
            for t in sched.vts:
                if t.exc is not None:
                    if isinstance(t.exc, StepBudgetExceeded):
                        run.aborted = run.aborted or "budget"
                    else:
                        run.thread_excs.append(t.name.split("::")[0] + ":" + type(t.exc).__name__)
        return run
    finally:
        try:
            if interp is not None and not opts.get("keep_running"):
                try:
                    rec.budget = 10 ** 9
                    if interp.status != "stopped":
                        interp.stop()
                    if sched and not sched.overrun:
                        try:
                            sched.settle()
                            # an actor's watcher thread polls its (now stopped) child every 10 ms and
                            # then exits by itself: give such threads one poll interval before the
                            # census, which is about threads nobody will ever end
                            if any(n.startswith("actor-") for n in sched.live()):
                                sched.advance(0.025)
                                sched.settle()
                        except BaseException:  # noqa
                            pass
                        run.sched_live = sched.live()
                except BaseException:  # noqa
                    pass
        finally:
            if sched:
                sched.shutdown()
                vthreads.uninstall()


# =============================================================================== async
def _raise_if_budget(t):
    if t.done() and not t.cancelled():
        e = t.exception()
        if isinstance(e, StepBudgetExceeded):
            raise e


async def _quiesce(interp, loop, grace: bool = True):
    """Waits until the interpreter's queue is drained (or its run loop died), including the
    zero-delay follow-ups (sleep(0) service wrappers, task done-callbacks) that refill it."""
    while True:
        t = interp._event_loop_task
        if t is None or t.done():
            if t is not None:
                _raise_if_budget(t)
            return
        j = asyncio.ensure_future(interp._event_queue.join())
        try:
            await asyncio.wait({j, t}, return_when=asyncio.FIRST_COMPLETED)
        finally:
            if not j.done():
                j.cancel()
                try:
                    await j
                except BaseException:  # noqa
                    pass
        _raise_if_budget(t)
        if not grace:
            return
        # run every other ready callback until nobody else is runnable at this instant
        idle = False
        for _ in range(500):
            await asyncio.sleep(0)
            if not loop._ready:
                idle = True
                break
        _raise_if_budget(t)
        if t.done() or (idle and not interp._event_queue._unfinished_tasks):
            return


def run_async(spec: dict, history: List[list], opts: Optional[dict] = None) -> Run:
    from xstate_statemachine import Interpreter, create_machine

    opts = opts or {}
    run = Run("async")
    holder = {}

    async def main(loop):
        rec = Recorder(budget=opts.get("budget", 5000), clock=loop.time)
        rec.iter_fn = lambda: loop.iterations
        rec.fault_plan = set(opts.get("faults") or [])
        rec.record_sites = bool(opts.get("record_sites"))
        run.rec = rec
        try:
            cfg, logic = build(spec, rec, async_mode=True)
            machine = create_machine(cfg, logic=logic)
            interp = Interpreter(machine)
        except StepBudgetExceeded:
            run.aborted = "budget"
            return
        except Exception as e:  # noqa
            run.create_exc = _exc_name(e)
            run.create_exc_obj = e
            return
        run.interp = interp
        rec.interp = interp
        holder["interp"] = interp
        if not opts.get("no_tap"):
            interp.use(Tap(rec))
            interp.subscribe(make_subscriber(rec))
            if opts.get("witness_subscriber"):
                interp.subscribe(make_witness_subscriber(rec))
            interp.on("*", make_emit_listener(rec))
        ops = list(history)
        if not opts.get("no_autostart"):
            ops = [["start"]] + ops
        try:
            for op in ops:
                m = rec.mark()
                exc = None
                extra = {}
                try:
                    if op[0] == "start":
                        await interp.start()
                    elif op[0] in ("send", "sendp"):
                        await interp.send(_mk_event(op))
                    elif op[0] == "send!":
                        await interp.send(_mk_event(["send", op[1], op[2]]))
                    elif op[0] == "batch":
                        from xstate_statemachine import Event

                        await interp.send_events([Event(type=t, payload={"seq": q}) for t, q in op[1]])
                    elif op[0] == "advance":
                        await asyncio.sleep(op[1] / 1000.0)
                    elif op[0] == "stop":
                        await interp.stop()
                        for _ in range(3):
                            await asyncio.sleep(0)
                        me_ = asyncio.current_task()
                        extra["live_after_stop"] = [getattr(t.get_coro(), "__qualname__", repr(t)) for t in asyncio.all_tasks(loop)
                                                    if t is not me_ and not t.done()]
                    elif op[0] == "can":
                        extra["can"] = interp.can(op[1])
                    elif op[0] == "snap":
                        extra["snap"] = interp.get_snapshot()
                    elif op[0] == "psnap":
                        extra["psnap"] = interp.get_persisted_snapshot()
                        extra["psnap_copy"] = copy.deepcopy(extra["psnap"])
                    elif op[0] == "restore":
                        snap_s = interp.get_snapshot()
                        extra["snap"] = snap_s
                        old = interp
                        cfg2, logic2 = build(spec, rec, async_mode=True)
                        machine2 = create_machine(cfg2, logic=logic2)
                        interp = Interpreter.from_snapshot(snap_s, machine2)
                        run.interp = interp
                        rec.interp = interp
                        holder["interp"] = interp
                        if not opts.get("no_tap"):
                            interp.use(Tap(rec))
                            interp.subscribe(make_subscriber(rec))
                            if opts.get("witness_subscriber"):
                                interp.subscribe(make_witness_subscriber(rec))
                            interp.on("*", make_emit_listener(rec))
                        await old.stop()
                        extra["resnap"] = interp.get_snapshot()
                        await interp.start()
                    else:
                        raise ValueError(op)
                    if op[0] != "send!":
                        await _quiesce(interp, loop)
                    if interp._event_loop_task is not None:
                        _raise_if_budget(interp._event_loop_task)
                    if rec.blown:
                        raise StepBudgetExceeded("budget blown in another task")
                except (StepBudgetExceeded, LoopDeadlock):
                    raise
                except Exception as e:  # noqa
                    exc = _exc_name(e)
                    extra["exc_is_lib"] = is_library_error(e)
                    extra["exc_msg"] = str(e)[:200]
                o = observe(interp, rec, op, m, exc)
                o.extra.update(extra)
                run.steps.append(o)
        except StepBudgetExceeded:
            run.aborted = "budget"
        finally:
            rec.budget = 10 ** 9
            if not opts.get("keep_running"):
                try:
                    if interp.status != "stopped":
                        await interp.stop()
                    for _ in range(3):
                        await asyncio.sleep(0)
                    me = asyncio.current_task()
                    run.census_after_stop = [
                        (t.get_coro().__qualname__ if hasattr(t.get_coro(), "__qualname__") else repr(t))
                        for t in asyncio.all_tasks(loop)
                        if t is not me and not t.done()
                    ]
                except BaseException:  # noqa
                    pass

    try:
        run_virtual(main, max_iterations=opts.get("loop_budget", 400000))
    except StepBudgetExceeded:
        run.aborted = "budget"
    except LoopDeadlock:
        run.aborted = run.aborted or "deadlock"
    return run


# =============================================================================== pure
def run_pure(spec: dict, history: List[list], opts: Optional[dict] = None) -> Run:
    """initial_transition / transition chain.  Only send ops are meaningful."""
    from xstate_statemachine import create_machine
    from xstate_statemachine.helpers import initial_transition, transition

    opts = opts or {}
    run = Run("pure")
    rec = Recorder(budget=opts.get("budget", 5000))
    run.rec = rec
    try:
        cfg, logic = build(spec, rec)
        machine = create_machine(cfg, logic=logic)
    except Exception as e:  # noqa
        run.create_exc = _exc_name(e)
        run.create_exc_obj = e
        return run
    run.interp = machine
    snap = None
    from .fingerprint import diff as _fp_diff, machine_fp as _machine_fp

    try:
        fp_before = _machine_fp(machine)
    except Exception:  # noqa
        fp_before = None
    run.machine_mutated = None
    try:
        for op in [["start"]] + list(history):
            m = rec.mark()
            exc = None
            actions = None
            try:
                if op[0] == "start":
                    snap, actions = initial_transition(machine)
                elif op[0] in ("send", "sendp"):
                    if snap is None:
                        continue
                    before = (set(snap.configuration), copy.deepcopy(snap.context), snap.status, snap.output)
                    snap2, actions = transition(machine, snap, _mk_event(op))
                    after = (set(snap.configuration), snap.context, snap.status, snap.output)
                    if before != after:
                        exc = "INPUT-SNAPSHOT-MUTATED"
                    snap = snap2
                else:
                    continue
            except StepBudgetExceeded:
                raise
            except Exception as e:  # noqa
                exc = _exc_name(e)
            o = Obs()
            o.op = op
            if snap is not None:
                o.cfg = frozenset(snap.configuration)
                o.snapcfg = o.cfg
                o.leaves = frozenset(snap.state_ids)
                o.ctx = copy.deepcopy(snap.context)
                o.status = snap.status
                o.output = copy.deepcopy(snap.output)
            o.exc = exc
            o.log = rec.log[m:]
            o.extra["reported"] = [a.type for a in (actions or [])]
            run.steps.append(o)
    except StepBudgetExceeded:
        run.aborted = "budget"
    # the pure functions must leave the machine definition as they found it
    if fp_before is not None:
        try:
            d_ = _fp_diff(fp_before, _machine_fp(machine))
            if d_:
                run.machine_mutated = {"path": d_[0], "before": repr(d_[1])[:120], "after": repr(d_[2])[:120]}
        except Exception:  # noqa
            pass
    return run


ENGINES = {"sync": run_sync, "async": run_async, "pure": run_pure}
