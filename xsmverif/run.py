"""python -m xsmverif.run CNN --tier quick|thorough [--seed N]"""
import sys

from .runner import main

if __name__ == "__main__":
    sys.exit(main())
