"""MachineSpec -> XState JSON config (+ spelling choices) and MachineLogic bound to a Recorder."""
from __future__ import annotations

import copy
from typing import Any, Callable, Dict, List, Optional

from .recorder import InjectedFault, Recorder
from .tree import Tree, path_to_id


# ----------------------------------------------------------------------------- spec walking
def walk_states(spec: dict):
    """Yields (state_id, state_spec) in document order."""
    mid = spec["id"]

    def rec(s, id):
        yield id, s
        for c in s.get("children", []):
            yield from rec(c, id + "." + c["key"])

    yield from rec(spec["root"], mid)


def state_transitions(s: dict):
    """Yields (family, key, index, T) for every transition declared on a state spec."""
    for ev, ts in s.get("on", []):
        for i, t in enumerate(ts):
            yield "on", ev, i, t
    for i, t in enumerate(s.get("always", [])):
        yield "always", "", i, t
    if s.get("onDone"):
        yield "onDone", None, 0, s["onDone"]
    for delay, ts in s.get("after", []):
        for i, t in enumerate(ts):
            yield "after", delay, i, t
    for inv in s.get("invoke", []):
        for i, t in enumerate(inv.get("onDone", [])):
            yield "invDone", inv.get("id"), i, t
        for i, t in enumerate(inv.get("onError", [])):
            yield "invError", inv.get("id"), i, t


def walk_actions(actions: List[dict]):
    for a in actions or []:
        yield a
        k = a.get("k")
        if k == "choose":
            for b in a.get("branches", []):
                yield from walk_actions(b.get("actions", []))
        elif k in ("pure", "enqueue"):
            yield from walk_actions(a.get("actions", []))


def walk_guards(g: Optional[dict]):
    if g is None:
        return
    yield g
    if g["k"] in ("and", "or"):
        for x in g["args"]:
            yield from walk_guards(x)
    elif g["k"] == "not":
        yield from walk_guards(g["arg"])


def finalize(spec: dict) -> dict:
    """Numbers transitions (`mk`) and installs a leading marker into each entry/exit/transition
    action list.  Idempotent."""
    n = 0
    for sid, s in walk_states(spec):
        if s["kind"] == "history":
            continue
        for fam in ("entry", "exit"):
            lst = s.setdefault(fam, [])
            name = ("en:" if fam == "entry" else "ex:") + sid
            if not (lst and lst[0].get("k") == "mark" and lst[0].get("name") == name):
                lst.insert(0, {"k": "mark", "name": name})
        for fam, key, i, t in state_transitions(s):
            if t.get("null"):
                continue
            mk = f"t{n}"
            n += 1
            t["mk"] = mk
            lst = t.setdefault("actions", [])
            if lst and lst[0].get("k") == "mark" and str(lst[0].get("name", "")).startswith("t") and lst[0]["name"][1:].isdigit():
                lst[0]["name"] = mk
            else:
                lst.insert(0, {"k": "mark", "name": mk})
    return spec


class TransInfo:
    __slots__ = ("tid", "source", "family", "key", "index", "target", "guard", "reenter", "spec")

    def __init__(self, tid, source, family, key, index, target, guard, reenter, spec):
        self.tid = tid
        self.source = source
        self.family = family
        self.key = key
        self.index = index
        self.target = target
        self.guard = guard
        self.reenter = reenter
        self.spec = spec

    def __repr__(self):
        return f"T({self.tid} {self.source} -{self.family}:{self.key}-> {self.target})"


class Index:
    """Marker / transition registry computed from the spec."""

    def __init__(self, spec: dict):
        self.spec = spec
        self.tree = Tree(spec)
        self.trans: Dict[str, TransInfo] = {}
        self.by_state: Dict[str, List[TransInfo]] = {}
        self.entry_marker: Dict[str, str] = {}
        self.exit_marker: Dict[str, str] = {}
        mid = spec["id"]
        for sid, s in walk_states(spec):
            self.by_state[sid] = []
            if s["kind"] != "history":
                self.entry_marker["en:" + sid] = sid
                self.exit_marker["ex:" + sid] = sid
            for fam, key, i, t in state_transitions(s):
                tgt = None if t.get("target") is None else path_to_id(mid, t["target"])
                ti = TransInfo(t.get("mk"), sid, fam, key, i, tgt, t.get("guard"), bool(t.get("reenter")), t)
                self.by_state[sid].append(ti)
                if t.get("mk"):
                    self.trans[t["mk"]] = ti


# ----------------------------------------------------------------------------- guards
def guard_name(g: dict) -> str:
    k = g["k"]
    if k == "tab":
        return "g." + g["name"]
    if k == "ctx":
        return f"c.{g['key']}.{g['op']}.{g['val']}"
    if k == "param":
        return "p." + g["name"]
    if k == "raising":
        return "g.raise." + str(g.get("name", "0"))
    if k == "missing":
        return "g.missing." + str(g.get("name", "0"))
    if k == "const":
        return "g.true" if g["val"] else "g.false"
    raise ValueError(k)


def render_guard(g: Optional[dict], mid: str, spell: Optional[dict] = None) -> Any:
    """Spec guard -> config guard value."""
    if g is None:
        return None
    sp = g.get("sp") or {}
    k = g["k"]
    if k in ("and", "or"):
        kids = [render_guard(x, mid, spell) for x in g["args"]]
        form = sp.get("form", "children")
        if form == "children":
            return {"type": k, "children": kids}
        if form == "params.guards":
            return {"type": k, "params": {"guards": kids}}
        return {"type": k, "params": {"children": kids}}
    if k == "not":
        kid = render_guard(g["arg"], mid, spell)
        form = sp.get("form", "children")
        if form == "children":
            return {"type": "not", "children": [kid]}
        if form == "params.guards":
            return {"type": "not", "params": {"guards": [kid]}}
        return {"type": "not", "params": {"guard": kid}}
    if k == "in":
        sid = path_to_id(mid, g["state"])
        form = sp.get("form", "#abs")
        if form == "#abs":
            s = "#" + sid
        elif form == "abs":
            s = sid
        else:  # explicit suffix string chosen by the generator (guaranteed unambiguous)
            s = sp["suffix"]
        key = sp.get("pkey", "state")
        return {"type": "stateIn", "params": {key: s}}
    if k == "param":
        return {"type": guard_name(g), "params": copy.deepcopy(g.get("params") or {})}
    name = guard_name(g)
    if sp.get("obj"):
        return {"type": name}
    return name


def eval_guard(g: Optional[dict], atoms: Callable[[dict], Any]) -> Any:
    """Reference evaluation with Python short-circuit.  `atoms(g)` returns True/False for an
    atom, or the string 'missing' (reached a missing atom -> whole result is 'missing')."""
    if g is None:
        return True
    k = g["k"]
    if k == "and":
        for x in g["args"]:
            v = eval_guard(x, atoms)
            if v == "missing":
                return v
            if not v:
                return False
        return True
    if k == "or":
        for x in g["args"]:
            v = eval_guard(x, atoms)
            if v == "missing":
                return v
            if v:
                return True
        return False
    if k == "not":
        v = eval_guard(g["arg"], atoms)
        if v == "missing":
            return v
        return not v
    return atoms(g)


# ----------------------------------------------------------------------------- logic
def _payload_of(event: Any) -> dict:
    p = getattr(event, "payload", None)
    if isinstance(p, dict):
        return p
    d = getattr(event, "data", None)
    return d if isinstance(d, dict) else {}


def make_assignment(ops: List[list]) -> Dict[str, Any]:
    out: Dict[str, Any] = {}
    for op in ops:
        if op[0] == "inc":
            key = op[1]
            out[key] = (lambda key: lambda a: (a["context"].get(key) or 0) + 1)(key)
        elif op[0] == "set":
            out[op[1]] = copy.deepcopy(op[2])
        elif op[0] == "copy":
            key, pk = op[1], op[2]
            out[key] = (lambda pk: lambda a: _payload_of(a["event"]).get(pk))(pk)
        elif op[0] == "app":  # append literal to a list (fresh list each time)
            key, val = op[1], op[2]
            out[key] = (lambda key, val: lambda a: list(a["context"].get(key) or []) + [val])(key, val)
    return out


def _first_marker(a: dict) -> str:
    for x in a.get("actions", []) or []:
        if x.get("k") == "mark":
            return x["name"]
    return "?"


class Renderer:
    """Holds the per-run objects created while rendering one spec."""

    def __init__(self, spec: dict, rec: Recorder, *, sleeper: Optional[Callable[[float], Any]] = None,
                 async_mode: bool = False, services: Optional[dict] = None):
        self.spec = spec
        self.mid = spec["id"]
        self.rec = rec
        self.sleeper = sleeper
        self.async_mode = async_mode
        self.extra_services = services or {}
        rec.tables = spec.get("tables", {})

    # ---- actions
    def render_action(self, a: dict) -> Any:
        k = a["k"]
        sp = a.get("sp") or {}
        if k in ("mark", "user"):
            name = a["name"]
            if a.get("cparams"):
                # params computed per call: a callable that the engine resolves against context and event
                return {"type": name, "params": (lambda args: {"computed": True})}
            if a.get("params") is not None:
                return {"type": name, "params": copy.deepcopy(a["params"])}
            return {"type": name} if sp.get("obj") else name
        if k == "assign":
            return {"type": sp.get("alias", "xstate.assign"), "params": {"assignment": make_assignment(a["ops"])}}
        if k == "raise":
            ev: Dict[str, Any] = {"type": a["event"]}
            if a.get("payload"):
                ev.update(a["payload"])
            params: Dict[str, Any] = {"event": ev if (a.get("payload") or sp.get("evobj")) else a["event"]}
            if a.get("delay") is not None:
                params["delay"] = a["delay"]
            if a.get("id") is not None:
                params["id"] = a["id"]
            return {"type": sp.get("alias", "xstate.raise"), "params": params}
        if k == "choose":
            conds = []
            for b in a["branches"]:
                c: Dict[str, Any] = {"actions": [self.render_action(x) for x in b.get("actions", [])]}
                if b.get("guard") is not None:
                    c[b.get("gkey", "guard")] = render_guard(b["guard"], self.mid)
                conds.append(c)
            return {"type": sp.get("alias", "xstate.choose"), "params": {"conditions": conds}}
        if k == "pure":
            inner = [self.render_action(x) for x in a.get("actions", [])]
            rec = self.rec
            tagname = "pure.get:" + _first_marker(a)

            def getter(args, inner=inner, tagname=tagname):
                rec.fault_site("callable", tagname)
                return list(inner)

            return {"type": sp.get("alias", "xstate.pure"), "params": {"get": getter}}
        if k == "enqueue":
            inner = [self.render_action(x) for x in a.get("actions", [])]
            chk = render_guard(a.get("check"), self.mid) if a.get("check") is not None else None
            rec = self.rec
            tagname = "enqueue.callback:" + _first_marker(a)

            def cb(args, inner=inner, chk=chk, tagname=tagname):
                rec.fault_site("callable", tagname)
                if chk is not None and not args["check"](chk):
                    return
                for x in inner:
                    args["enqueue"](x)

            return {"type": sp.get("alias", "xstate.enqueueActions"), "params": {"callback": cb}}
        if k == "emit":
            return {"type": "xstate.emit", "params": {"event": {"type": a["event"]}}}
        if k == "log":
            return {"type": "xstate.log", "params": {"expr": a.get("expr", "x")}}
        if k == "raw":
            return copy.deepcopy(a["cfg"])
        if k == "selfloop":
            # an action whose expansion contains itself while ctx[n] < ell (ell None = forever)
            ell, via, name = a.get("ell"), a["via"], a["name"]
            inc = {"type": "xstate.assign", "params": {"assignment": make_assignment([["inc", "n"]])}}
            more = (lambda c: True) if ell is None else (lambda c, ell=ell: (c.get("n") or 0) < ell)
            if via == "pure":
                me: Dict[str, Any] = {"type": "xstate.pure", "params": {}}
                me["params"]["get"] = lambda args: ([name, inc, me] if more(args["context"]) else [])
                return me
            if via == "enqueue":
                me = {"type": "xstate.enqueueActions", "params": {}}

                def cb(args):
                    if more(args["context"]):
                        args["enqueue"](name)
                        args["enqueue"](inc)
                        args["enqueue"](me)

                me["params"]["callback"] = cb
                return me
            me = {"type": "xstate.choose", "params": {"conditions": []}}
            gname = "c.n.lt.%s" % ell if ell is not None else "c.n.ge.0"
            me["params"]["conditions"].append({"guard": gname, "actions": [name, inc, me]})
            return me
        raise ValueError(f"unknown action kind {k}")

    def render_actions(self, lst: Optional[List[dict]], sp: Optional[dict] = None) -> Any:
        out = [self.render_action(a) for a in (lst or [])]
        form = (sp or {}).get("aform")
        if form == "single" and len(out) == 1:
            return out[0]
        return out

    # ---- transitions
    def render_transition(self, t: dict) -> Any:
        if t.get("null"):
            return None
        sp = t.get("sp") or {}
        cfg: Dict[str, Any] = {}
        if t.get("target") is not None:
            cfg["target"] = self.render_target(t["target"], sp)
        if t.get("guard") is not None:
            cfg[sp.get("gkey", "guard")] = render_guard(t["guard"], self.mid)
        acts = self.render_actions(t.get("actions"), sp)
        if acts:
            cfg["actions"] = acts
        if t.get("reenter"):
            cfg["reenter"] = True
        if t.get("extra"):
            cfg.update(copy.deepcopy(t["extra"]))
        return cfg

    def render_target(self, path: List[str], sp: dict) -> str:
        if sp.get("tstr") is not None:
            return sp["tstr"]
        return "#" + path_to_id(self.mid, path)

    def render_tlist(self, ts: List[dict], sp: Optional[dict] = None) -> Any:
        out = [self.render_transition(t) for t in ts]
        form = (sp or {}).get("lform")
        if len(out) == 1:
            if form == "list":
                return out
            one = out[0]
            if form == "string" and isinstance(one, dict) and set(one) == {"target"}:
                return one["target"]
            return one
        return out

    # ---- states
    def render_state(self, s: dict, is_root: bool = False) -> dict:
        cfg: Dict[str, Any] = {}
        kind = s["kind"]
        sp = s.get("sp") or {}
        if kind == "history":
            cfg["type"] = "history"
            if s.get("hist") == "deep" or sp.get("explicit_shallow"):
                cfg["history"] = s.get("hist", "shallow")
            if s.get("htarget") is not None:
                cfg["target"] = self.render_target(s["htarget"], sp)
            return cfg
        if kind == "final":
            cfg["type"] = "final"
        elif kind == "parallel":
            cfg["type"] = "parallel"
        elif kind == "compound" and sp.get("explicit_type"):
            cfg["type"] = "compound"
        if kind == "compound" and s.get("initial") is not None and not sp.get("omit_initial"):
            cfg["initial"] = s["initial"]
        if s.get("cid"):
            cfg["id"] = s["cid"]
        if s.get("entry"):
            cfg["entry"] = self.render_actions(s["entry"], sp)
        if s.get("exit"):
            cfg["exit"] = self.render_actions(s["exit"], sp)
        on: Dict[str, Any] = {}
        for ev, ts in s.get("on", []):
            on[ev] = self.render_tlist(ts, (ts[0].get("sp") if ts and ts[0] else None) if len(ts) == 1 else None)
        always = s.get("always") or []
        if always:
            if sp.get("always_split"):
                k_ = sp["always_split"]
                on[""] = self.render_tlist(always[:k_])
                cfg["always"] = self.render_tlist(always[k_:])
            elif sp.get("always_as_on"):
                on[""] = self.render_tlist(always)
            else:
                cfg["always"] = self.render_tlist(always)
        if on:
            cfg["on"] = on
        if s.get("onDone"):
            cfg["onDone"] = self.render_transition(s["onDone"])
        if s.get("after"):
            af: Dict[Any, Any] = {}
            for delay, ts in s["after"]:
                key = str(delay) if (sp.get("after_str") and isinstance(delay, int)) else delay
                af[key] = self.render_tlist(ts, ts[0].get("sp") if len(ts) == 1 else None)
            cfg["after"] = af
        if s.get("invoke"):
            invs = []
            for inv in s["invoke"]:
                ic: Dict[str, Any] = {"src": inv["src"]}
                if inv.get("id") is not None:
                    ic["id"] = inv["id"]
                if inv.get("input") is not None:
                    ic["input"] = copy.deepcopy(inv["input"])
                if inv.get("onDone"):
                    ic["onDone"] = self.render_tlist(inv["onDone"])
                if inv.get("onError"):
                    ic["onError"] = self.render_tlist(inv["onError"])
                invs.append(ic)
            cfg["invoke"] = invs if (len(invs) > 1 or sp.get("invoke_list")) else invs[0]
        if s.get("output") is not None:
            cfg["output"] = self.render_output(s["output"])
        if s.get("tags"):
            cfg["tags"] = list(s["tags"])
        if s.get("meta"):
            cfg["meta"] = copy.deepcopy(s["meta"])
        if s.get("children"):
            cfg["states"] = {c["key"]: self.render_state(c) for c in s["children"]}
        return cfg

    def render_output(self, o: Any) -> Any:
        if isinstance(o, dict) and o.get("k") == "call":
            rec = self.rec
            key = o["key"]

            def fn(args, key=key):
                rec.fault_site("callable", "output")
                return {"from_ctx": args["context"].get(key)}

            return fn
        if isinstance(o, dict) and o.get("k") == "lit":
            return copy.deepcopy(o["val"])
        return copy.deepcopy(o)

    def config(self) -> dict:
        spec = self.spec
        cfg = self.render_state(spec["root"], True)
        cfg["id"] = spec["id"]
        cfg["context"] = copy.deepcopy(spec.get("context", {}))
        if spec.get("maxIterations") is not None:
            cfg["maxIterations"] = spec["maxIterations"]
        if spec.get("output") is not None:
            cfg["output"] = self.render_output(spec["output"])
        if "states" not in cfg:
            cfg["states"] = {}
        return cfg

    # ---- logic
    def logic(self):
        from xstate_statemachine import MachineLogic

        rec = self.rec
        spec = self.spec
        actions: Dict[str, Callable] = {}
        guards: Dict[str, Callable] = {}
        impls: Dict[str, dict] = spec.get("impls", {})

        def mk_marker(name):
            def f(interp, ctx, event, adef):
                rec.fault_site("action", name)
                rec.act(name, event)

            return f

        def mk_user(name, impl):
            kind = impl.get("k", "mark")
            if kind == "missing":
                return None
            if kind == "async":
                async def af(interp, ctx, event, adef):
                    rec.fault_site("action", name)
                    rec.act(name, event)

                return af
            if kind == "slow":
                ms = impl["ms"]
                if self.async_mode:
                    import asyncio

                    async def sf(interp, ctx, event, adef):
                        rec.act(name + ":begin", event)
                        await asyncio.sleep(ms / 1000.0)
                        rec.act(name + ":end", event)

                    return sf

                def sf2(interp, ctx, event, adef):
                    rec.act(name + ":begin", event)
                    if self.sleeper:
                        self.sleeper(ms / 1000.0)
                    rec.act(name + ":end", event)

                return sf2
            if kind == "stop_self":
                # a lifecycle call made from inside a macrostep: the action stops its own interpreter
                if self.async_mode:
                    async def xf(interp, ctx, event, adef):
                        rec.act(name, event)
                        await interp.stop()

                    return xf

                def xf2(interp, ctx, event, adef):
                    rec.act(name, event)
                    interp.stop()

                return xf2
            if kind == "raise_exc":
                def rf(interp, ctx, event, adef):
                    rec.act(name, event)
                    raise InjectedFault("user action " + name)

                return rf
            if kind == "params":
                def pf(interp, ctx, event, adef):
                    rec.fault_site("action", name)
                    rec.act(name, event)
                    p = adef.params
                    rec.log.append(("aparams", name, repr(p)))

                return pf
            if kind == "ctxinc":
                key = impl["key"]

                def cf(interp, ctx, event, adef):
                    rec.fault_site("action", name)
                    rec.act(name, event)
                    ctx[key] = (ctx.get(key) or 0) + 1

                return cf
            return mk_marker(name)

        def visit_actions(lst):
            for a in walk_actions(lst):
                if a["k"] == "mark":
                    actions.setdefault(a["name"], mk_marker(a["name"]))
                elif a["k"] == "user":
                    impl = impls.get(a["name"], {"k": "mark"})
                    f = mk_user(a["name"], impl)
                    if f is not None:
                        actions.setdefault(a["name"], f)
                elif a["k"] == "choose":
                    for b in a["branches"]:
                        visit_guard(b.get("guard"))
                elif a["k"] == "enqueue":
                    visit_guard(a.get("check"))
                elif a["k"] == "selfloop":
                    actions.setdefault(a["name"], mk_marker(a["name"]))
                    ell = a.get("ell")
                    visit_guard({"k": "ctx", "key": "n", "op": "lt", "val": ell} if ell is not None
                                else {"k": "ctx", "key": "n", "op": "ge", "val": 0})

        def visit_guard(g):
            for x in walk_guards(g):
                k = x["k"]
                if k in ("and", "or", "not", "in", "missing"):
                    continue
                name = guard_name(x)
                if name in guards:
                    continue
                if k == "tab":
                    tname = x["name"]

                    def gf(ctx, event, tname=tname, name=name):
                        rec.step()
                        tab = rec.tables[tname]
                        v = tab[rec.epoch % len(tab)]
                        rec.log.append(("gcall", name, v))
                        rec.fault_site("guard", name)
                        if v == "raise":
                            raise InjectedFault("guard " + name)
                        return v

                    guards[name] = gf
                elif k == "const":
                    val = x["val"]

                    def kf(ctx, event, val=val, name=name):
                        rec.step()
                        rec.log.append(("gcall", name, val))
                        rec.fault_site("guard", name)
                        return val

                    guards[name] = kf
                elif k == "ctx":
                    key, op, val = x["key"], x["op"], x["val"]

                    def cf(ctx, event, key=key, op=op, val=val, name=name):
                        rec.step()
                        cur = ctx.get(key) or 0
                        if op == "even":
                            r = cur % 2 == 0
                        elif op == "odd":
                            r = cur % 2 == 1
                        elif op == "lt":
                            r = cur < val
                        elif op == "ge":
                            r = cur >= val
                        elif op == "mod3":
                            r = cur % 3 == val
                        else:
                            r = cur == val
                        rec.log.append(("gcall", name, r))
                        return r

                    guards[name] = cf
                elif k == "param":
                    def pf(ctx, event, params, name=name):
                        rec.step()
                        rec.log.append(("gcall", name, repr(params)))
                        rec.fault_site("guard", name)
                        return bool(params.get("want")) if isinstance(params, dict) else False

                    guards[name] = pf
                elif k == "raising":
                    def rf(ctx, event, name=name):
                        rec.step()
                        rec.log.append(("gcall", name, "raise"))
                        raise InjectedFault("guard " + name)

                    guards[name] = rf

        for sid, s in walk_states(spec):
            visit_actions(s.get("entry"))
            visit_actions(s.get("exit"))
            for fam, key, i, t in state_transitions(s):
                visit_actions(t.get("actions"))
                visit_guard(t.get("guard"))

        services: Dict[str, Any] = {}
        for name, sv in (spec.get("services") or {}).items():
            services[name] = self.make_service(name, sv)
        services.update(self.extra_services)
        delays: Dict[str, Any] = {}
        for name, dv in (spec.get("delays") or {}).items():
            if isinstance(dv, dict) and dv.get("k") == "ctx":
                key, base = dv["key"], dv.get("base", 0)

                def df(ctx, event, key=key, base=base):
                    rec.fault_site("callable", "delay")
                    return base + (ctx.get(key) or 0)

                delays[name] = df
            else:
                delays[name] = dv
        return MachineLogic(actions=actions, guards=guards, services=services, delays=delays)

    def make_service(self, name: str, sv: dict):
        rec = self.rec
        kind = sv.get("k", "sync")
        outcome = sv.get("outcome", "return")
        value = sv.get("value")
        calls = {"n": 0}

        def result():
            if value == "$call":
                return {"call": calls["n"]}
            return copy.deepcopy(value)

        if kind == "sync":
            def svc(interp, ctx, event):
                rec.step()
                calls["n"] += 1
                rec.log.append(("svc", "call", name, repr(_payload_of(event).get("input")), rec.now(), calls["n"]))
                if outcome == "raise":
                    raise InjectedFault(f"service {name} call {calls['n']}")
                return result()

            return svc
        if kind == "machine":
            from xstate_statemachine import create_machine

            child = sv["child"]
            r2 = Renderer(child, rec, async_mode=self.async_mode, sleeper=self.sleeper)
            return create_machine(r2.config(), logic=r2.logic())
        if kind == "coro":
            import asyncio
            ms = sv.get("ms", 0)

            async def asvc(interp, ctx, event):
                rec.step()
                calls["n"] += 1
                k = calls["n"]
                rec.log.append(("svc", "call", name, repr(_payload_of(event).get("input")), rec.now(), k))
                try:
                    if outcome == "never":
                        await asyncio.sleep(10 ** 6)
                    await asyncio.sleep(ms / 1000.0)
                except asyncio.CancelledError:
                    rec.log.append(("svc", "cancelled", name, None, rec.now(), k))
                    raise
                rec.log.append(("svc", "finish", name, outcome, rec.now(), k))
                if outcome == "raise":
                    raise InjectedFault(f"service {name} call {k}")
                return {"call": k} if value == "$call" else copy.deepcopy(value)

            return asvc
        if kind == "missing":
            return None
        raise ValueError(kind)


def build(spec: dict, rec: Recorder, **kw):
    """-> (config, logic)."""
    r = Renderer(spec, rec, **kw)
    cfg = r.config()
    lg = r.logic()
    if any(v is None for v in lg.services.values()):
        lg.services = {k: v for k, v in lg.services.items() if v is not None}
    return cfg, lg
