#!/usr/bin/env python3
"""tools_confirm_seed.py <seed-dir> [...]

Verifier-side confirmation of an independently seeded change (seeded/<id>/{patch.diff,demo.py,meta.json}):
a scratch worktree of /repo HEAD is made under /tmp, demo.py is run against it (must exit 0), the patch is
applied with `git apply`, demo.py is run again (must exit 1), the repository's whole pinned suite is run on the
patched worktree (must pass), and the worktree is removed.  The outcome is written into meta.json under
"confirmed_by_verifier".  Nothing is ever applied in /repo itself."""
import json
import os
import re
import subprocess
import sys

REPO = "/repo"
PY = "/venv/bin/python"


def sh(cmd, **kw):
    return subprocess.run(cmd, capture_output=True, text=True, **kw)


def confirm(seed_dir, jobs):
    seed_dir = os.path.abspath(seed_dir)
    sid = os.path.basename(seed_dir)
    wt = f"/tmp/cf-{sid}"
    sh(["git", "-C", REPO, "worktree", "remove", "--force", wt])
    head = sh(["git", "-C", REPO, "rev-parse", "--short", "HEAD"]).stdout.strip()
    r = sh(["git", "-C", REPO, "worktree", "add", "-q", "--detach", wt, "HEAD"])
    if r.returncode:
        return {"error": r.stderr[-300:]}
    out = {"how": f"patch applied with `git apply` in a scratch worktree of /repo at {head} under /tmp (removed afterwards); "
                  "demo.py run with PYTHONPATH at the worktree's src before and after the patch; full pinned suite run on the patched worktree"}
    try:
        env = dict(os.environ, PYTHONPATH=f"{wt}/src", PYTHONHASHSEED="0")
        d0 = sh([PY, os.path.join(seed_dir, "demo.py")], env=env, cwd=wt, timeout=300)
        out["demo_exit_clean"] = d0.returncode
        a = sh(["git", "-C", wt, "apply", os.path.join(seed_dir, "patch.diff")])
        if a.returncode:
            out["error"] = "patch does not apply: " + a.stderr[-300:]
            return out
        d1 = sh([PY, os.path.join(seed_dir, "demo.py")], env=env, cwd=wt, timeout=300)
        out["demo_exit_patched"] = d1.returncode
        out["demo_tail_patched"] = (d1.stdout + d1.stderr)[-300:]
        if d0.returncode == 0 and d1.returncode == 1:
            t = sh([PY, "-m", "pytest", "-q", "-p", "no:cacheprovider", "-n", str(jobs), "--timeout=900", "-q"], env=env, cwd=wt, timeout=3600)
            m = re.findall(r"\d+ (?:passed|failed|error|errors|skipped)", t.stdout[-600:])
            out["suite"] = ", ".join(m) if m else t.stdout[-300:]
            if "failed" in out["suite"] or "error" in out["suite"]:
                out["suite_failures"] = [l for l in t.stdout.splitlines() if l.startswith("FAILED") or l.startswith("ERROR")][:10]
    finally:
        sh(["git", "-C", REPO, "worktree", "remove", "--force", wt])
    return out


if __name__ == "__main__":
    jobs = int(os.environ.get("JOBS", "6"))
    for sd in sys.argv[1:]:
        res = confirm(sd, jobs)
        mp = os.path.join(sd, "meta.json")
        meta = json.load(open(mp))
        meta["confirmed_by_verifier"] = res
        json.dump(meta, open(mp, "w"), indent=1)
        ok = res.get("demo_exit_clean") == 0 and res.get("demo_exit_patched") == 1 and res.get("suite", "").startswith("2806 passed") and "failed" not in res.get("suite", "")
        print("CONFIRM", os.path.basename(os.path.abspath(sd)), "OK" if ok else "NOT-OK", json.dumps({k: v for k, v in res.items() if k != "how"})[:400], flush=True)
