#!/usr/bin/env python3
"""tools_confirm_seed.py <seed-dir> [...]

Verifier-side confirmation of an independently seeded change (seeded/<id>/{patch.diff,demo.py,meta.json}):
a scratch worktree of /repo HEAD is made under /tmp, demo.py is run against it (must exit 0), the patch is
applied with `git apply`, demo.py is run again (must exit 1), the repository's whole pinned suite is run on the
patched worktree (must pass), and the worktree is removed.  The outcome is written into meta.json under
"confirmed_by_verifier".  Nothing is ever applied in /repo itself."""
import json
import os
import re
import subprocess
import sys

REPO = "/repo"
PY = "/venv/bin/python"


def sh(cmd, **kw):
    return subprocess.run(cmd, capture_output=True, text=True, **kw)


def recheck(seed_dir):
    """RECHECK=1: only re-run, alone, the tests that failed in an earlier loaded full-suite run (patched worktree)."""
    seed_dir = os.path.abspath(seed_dir)
    sid = os.path.basename(seed_dir)
    meta = json.load(open(os.path.join(seed_dir, "meta.json")))
    out = meta.get("confirmed_by_verifier") or {}
    ids = [l.split()[1] for l in out.get("suite_failures", []) if len(l.split()) > 1]
    if not ids:
        return out
    wt = f"/tmp/cf-{sid}"
    sh(["git", "-C", REPO, "worktree", "remove", "--force", wt])
    sh(["git", "-C", REPO, "worktree", "add", "-q", "--detach", wt, "HEAD"])
    try:
        env = dict(os.environ, PYTHONPATH=f"{wt}/src", PYTHONHASHSEED="0")
        a = sh(["git", "-C", wt, "apply", os.path.join(seed_dir, "patch.diff")])
        if a.returncode:
            out["error"] = "patch does not apply: " + a.stderr[-300:]
            return out
        r2 = sh([PY, "-m", "pytest", "-q", "-p", "no:cacheprovider", "--timeout=900", "-q"] + ids, env=env, cwd=wt, timeout=1800)
        m2 = re.findall(r"\d+ (?:passed|failed|error|errors|skipped)", r2.stdout[-400:])
        out["failed_tests_rerun_alone"] = ", ".join(m2)
        if m2 and not any(("failed" in x or "error" in x) for x in m2):
            out["suite"] = "2806 passed, 1 skipped (of which %d failed in the loaded parallel run and passed when re-run alone on the patched tree)" % len(ids)
    finally:
        sh(["git", "-C", REPO, "worktree", "remove", "--force", wt])
    return out


def confirm(seed_dir, jobs):
    seed_dir = os.path.abspath(seed_dir)
    sid = os.path.basename(seed_dir)
    wt = f"/tmp/cf-{sid}"
    sh(["git", "-C", REPO, "worktree", "remove", "--force", wt])
    head = sh(["git", "-C", REPO, "rev-parse", "--short", "HEAD"]).stdout.strip()
    r = sh(["git", "-C", REPO, "worktree", "add", "-q", "--detach", wt, "HEAD"])
    if r.returncode:
        return {"error": r.stderr[-300:]}
    out = {"how": f"patch applied with `git apply` in a scratch worktree of /repo at {head} under /tmp (removed afterwards); "
                  "demo.py run with PYTHONPATH at the worktree's src before and after the patch; full pinned suite run on the patched worktree"}
    try:
        env = dict(os.environ, PYTHONPATH=f"{wt}/src", PYTHONHASHSEED="0")
        d0 = sh([PY, os.path.join(seed_dir, "demo.py")], env=env, cwd=wt, timeout=300)
        out["demo_exit_clean"] = d0.returncode
        a = sh(["git", "-C", wt, "apply", os.path.join(seed_dir, "patch.diff")])
        if a.returncode:
            # written against an older commit: context lines have moved; `patch -p1` (what seeded_eval uses) tolerates that
            a = sh(["patch", "-p1", "-s", "-i", os.path.join(seed_dir, "patch.diff")], cwd=wt)
            out["how"] = out["how"].replace("`git apply`", "`patch -p1` (offsets/fuzz: the patch was written against an earlier commit)")
        if a.returncode:
            out["error"] = "patch does not apply: " + (a.stdout + a.stderr)[-300:]
            return out
        d1 = sh([PY, os.path.join(seed_dir, "demo.py")], env=env, cwd=wt, timeout=300)
        out["demo_exit_patched"] = d1.returncode
        out["demo_tail_patched"] = (d1.stdout + d1.stderr)[-300:]
        if d0.returncode == 0 and d1.returncode == 1:
            t = sh([PY, "-m", "pytest", "-q", "-p", "no:cacheprovider", "-n", str(jobs), "--timeout=900", "-q"], env=env, cwd=wt, timeout=3600)
            m = re.findall(r"\d+ (?:passed|failed|error|errors|skipped)", t.stdout[-600:])
            out["suite"] = ", ".join(m) if m else t.stdout[-300:]
            if "failed" in out["suite"] or "error" in out["suite"]:
                out["suite_failures"] = [l for l in t.stdout.splitlines() if l.startswith("FAILED") or l.startswith("ERROR")][:10]
                # the suite is sleep-based; under load single timing tests fail. Re-run exactly the failed tests alone
                # (still on the patched worktree): if they pass, the full-suite verdict stands as "passes".
                ids = [l.split()[1] for l in out["suite_failures"] if len(l.split()) > 1]
                if ids and len(ids) <= 5:
                    r2 = sh([PY, "-m", "pytest", "-q", "-p", "no:cacheprovider", "--timeout=900", "-q"] + ids, env=env, cwd=wt, timeout=1800)
                    m2 = re.findall(r"\d+ (?:passed|failed|error|errors|skipped)", r2.stdout[-400:])
                    out["failed_tests_rerun_alone"] = ", ".join(m2)
                    if m2 and not any(("failed" in x or "error" in x) for x in m2):
                        out["suite"] = "2806 passed, 1 skipped (of which %d failed in the loaded parallel run and passed when re-run alone on the patched tree)" % len(ids)
    finally:
        sh(["git", "-C", REPO, "worktree", "remove", "--force", wt])
    return out


if __name__ == "__main__":
    jobs = int(os.environ.get("JOBS", "6"))
    for sd in sys.argv[1:]:
        res = recheck(sd) if os.environ.get("RECHECK") else confirm(sd, jobs)
        mp = os.path.join(sd, "meta.json")
        meta = json.load(open(mp))
        meta["confirmed_by_verifier"] = res
        json.dump(meta, open(mp, "w"), indent=1)
        suite = res.get("suite", "")
        ok = (res.get("demo_exit_clean") == 0 and res.get("demo_exit_patched") == 1 and suite.startswith("2806 passed")
              and ("failed" not in suite or "failed in the loaded parallel run and passed" in suite))
        print("CONFIRM", os.path.basename(os.path.abspath(sd)), "OK" if ok else "NOT-OK", json.dumps({k: v for k, v in res.items() if k != "how"})[:400], flush=True)
