"""Regenerates MANIFEST.json from the check modules (python tools_manifest.py)."""
import importlib
import json
import os

ROOT = os.path.dirname(os.path.abspath(__file__))
PY = "PYTHONHASHSEED=0 PYTHONPATH=/verif:/repo/src /venv/bin/python"
ALL = [f"C{i:02d}" for i in range(1, 21)]

LEVEL_TEXT = {}


def main():
    checks = []
    na = []
    for p in ALL:
        path = os.path.join(ROOT, "xsmverif", "checks", p.lower() + ".py")
        if not os.path.exists(path):
            na.append({"property_id": p, "reason": "check not built yet (work in progress; see DESIGN.md section 5 for the planned generated-search oracle)"})
            continue
        m = importlib.import_module("xsmverif.checks." + p.lower())
        checks.append({
            "property_id": p,
            "quick_cmd": f"{PY} -m xsmverif.run {p} --tier quick",
            "thorough_cmd": f"{PY} -m xsmverif.run {p} --tier thorough",
            "evidence_file": f"/verif/evidence/{p}.json",
            "replay_cmd_template": f"{PY} -m xsmverif.replay {{path}}",
            "engine": "xsmverif",
            "level_claimed": {
                "category": m.LEVEL,
                "text": getattr(m, "LEVEL_TEXT", None) or ("generated-input search against an explicit oracle (evidence of absence only within the stated bounds): " + m.RULE),
                "design_ref": f"DESIGN.md section 5 ({p})",
            },
            "level_note": "; ".join(getattr(m, "ASSUMPTIONS", [])),
            "technique": getattr(m, "TECHNIQUE", "property-based testing (Hypothesis) with an independent reference oracle"),
        })
    man = {
        "version": 1,
        "setup_cmd": "/venv/bin/python -c 'import hypothesis' 2>/dev/null || /venv/bin/pip install --no-index --find-links /opt/veriftools/wheels hypothesis; PYTHONHASHSEED=0 PYTHONPATH=/verif:/repo/src /venv/bin/python -m xsmverif.selftest",
        "hooks": {
            "guard": "XSM_VERIF",
            "enable": "no source hooks are needed: the harness monkey-patches threading/time in sync_interpreter's namespace and runs asyncio on a virtual-time loop",
            "baseline_off_cmd": "cd /repo && /venv/bin/python -m pytest -ra -q -p no:cacheprovider --timeout=900 --continue-on-collection-errors",
            "source_commits": [],
            "add_only": True,
        },
        "engines": [{"name": "xsmverif", "path": "/verif/xsmverif", "serves_properties": [c["property_id"] for c in checks],
                     "kind_free_text": "Hypothesis-driven generators (machine grammar, histories, schedules, faults) + independent oracles; virtual-time asyncio loop and deterministic thread scheduler"}],
        "checks": checks,
        "not_applicable": na,
        "notes": "All checks read VERIF_SEED (default 1) and VERIF_TIER; known genuine defects are listed in /verif/known_findings.json.",
    }
    with open(os.path.join(ROOT, "MANIFEST.json"), "w") as f:
        json.dump(man, f, indent=1)
    print("checks:", [c["property_id"] for c in checks], "na:", len(na))


if __name__ == "__main__":
    main()
