#!/bin/bash
# Long background batch on a committed snapshot: (1) every seeded change against its checks,
# (2) the thorough tier of every check, (3) the mutant sensitivity protocol. Results are printed
# (SEEDRESULT / THOROUGH / MUTANT lines) and left in the snapshot's seeded/RESULTS.json and
# sensitivity/results.json, from where they are copied back by hand.
export PYTHONPATH=$PWD
/venv/bin/python -m xsmverif.seeded_eval
echo "=== SEEDED DONE"
bash tools_thorough_all.sh 1
echo "=== THOROUGH DONE"
/venv/bin/python -m xsmverif.sensitivity
echo "=== SENSITIVITY DONE"
