#!/bin/bash
# second batch: mutant sensitivity protocol, then the thorough tiers that the first batch did not finish
export PYTHONPATH=$PWD
/venv/bin/python -m xsmverif.sensitivity
echo "=== SENSITIVITY DONE"
bash tools_thorough_all.sh 1 C04 C17 C14 C15 C09 C10 C08 C12 C16
echo "=== THOROUGH DONE"
