#!/bin/bash
# tools_quick_sweep.sh SEED [CHECK...]: runs the registered quick commands (all, or the named checks) at VERIF_SEED=SEED
# in /verif against /repo and prints one line per check: id, exit code, wall seconds, summary line.
seed=${1:-1}; shift
checks=${@:-C01 C02 C03 C04 C05 C06 C07 C08 C09 C10 C11 C12 C13 C14 C15 C16 C17 C18 C19 C20}
cd /verif
for c in $checks; do
  t0=$(date +%s)
  out=$(VERIF_SEED=$seed PYTHONHASHSEED=0 PYTHONPATH=/verif:/repo/src /venv/bin/python -m xsmverif.run $c --tier quick 2>&1)
  rc=$?
  echo "SWEEP seed=$seed $c exit=$rc wall=$(( $(date +%s) - t0 ))s $(echo "$out" | grep -E "^\[$c\]" | tail -1 | cut -c1-200)"
  echo "$out" | grep -E "^VIOLATION|^  tag=|harness" | head -6
done
