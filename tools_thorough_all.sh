#!/bin/bash
# Runs the thorough tier of every check, one after another (scratch outputs); prints one summary line each.
# usage: tools_thorough_all.sh [seed] [checks...]
SEED=${1:-1}; shift
CHECKS=${@:-C02 C03 C05 C06 C07 C08 C09 C10 C11 C12 C13 C14 C15 C16 C18 C19 C20 C04 C01 C17}
for c in $CHECKS; do
  t0=$(date +%s)
  VERIF_SEED=$SEED XSM_OUT_DIR=${XSM_OUT_DIR:-/var/tmp/thorough_out} PYTHONHASHSEED=0 PYTHONPATH=$PWD:/repo/src /venv/bin/python -m xsmverif.run $c --tier thorough > /var/tmp/thorough_$c.log 2>&1
  rc=$?
  echo "THOROUGH $c exit=$rc wall=$(( $(date +%s) - t0 ))s $(grep -c '^VIOLATION' /var/tmp/thorough_$c.log) violations; $(grep '^\[C' /var/tmp/thorough_$c.log | tail -1 | cut -c1-300)"
done
